"""C12  Every failure is a PacketError that locates the failing field.

Observed failing field = the deepest field wrapper open when the exception first passed
(Recorder, all-generic variant), cross-checked with the reference model's Fail(path).  Every
failing execution is judged (errors.judge_error): exception type, phase flag, innermost entry
(field or run of adjacent fixed-size fields containing it, class, offset where it begins), one
outer entry per enclosing reference/sequence field, str() total; silent=True gives None;
non-bytes input gives ValueError.
Workload: unpack failures = every truncation point + targeted corruptions of valid inputs;
pack failures = valid value trees with one leaf made invalid (out of range, wrong type) or
positions made to collide; generic and generated variants; nesting depth <= 4.
"""
from .. import common, driver, errors, harness, model, monitors, render, workloads
from ..common import rng_for, b2j
from ..spec import int_range

LEVEL = "exploration"
SHARDS = {"quick": 1, "thorough": 16}
REQUIRED = ("recursive_failures_judged", "families_whose_size_expression_can_go_negative", "nonbytes_inputs_rejected_with_silent", "errors_judged", "failing_field_confirmed_by_trace", "nested_errors_judged", "flat_errors_judged",
            "pack_errors_judged", "unpack_errors_judged", "run_names_accepted", "nonbytes_inputs_rejected",
            "silent_none_checked", "pack_collisions_judged")
MIN_NONTRIVIAL = 150
RULE = {
    "quick": "~220 generated families x 7 valid inputs: every cut point + 5 corruptions (unpack failures); each valid value tree "
             "with one leaf made invalid in ~6 ways and positions made to collide (pack failures); generic (monitored) and generated variants. "
             "Non-trivial = a failing execution; distinct = (declaration skeleton, phase, depth of the stack, kind of the failing field, run-name?).",
    "thorough": "16 shards x 900 families x 9 inputs, nesting <= 4.",
}
ASSUMPTIONS = [
    "the failing field is the deepest get_fields()/prototype wrapper open when the exception first passes (generic variant), "
    "and must coincide with the reference model's failing field, otherwise the case is a harness disagreement (inconclusive)",
    "offsets of outer stack entries are not judged (the statement fixes only the innermost offset)",
    "known findings F11 (pack offset of a repeated scalar field is the failing element's start) and F12 (descriptor sync error "
    "escapes pack() unwrapped) are classified by mechanism and reported as KNOWN-FINDING",
]

VARIANTS = {"g": render.VARIANTS["g"], "d": {}}


def classify_pack(fam, er):
    def classifier(stack, want_path):
        # F11: failing field is a repeated field and the reported offset lies after the field's start
        # (the start of the failing element), everything else as expected.
        w_name, w_decl, w_off = want_path[0]
        g_off, g_name, g_cls = stack[0]
        f = next((x for x in fam["decls"][w_decl]["fields"] if x["name"] == w_name), None)
        if f is not None and "rep" in f and g_name == w_name and g_off != w_off and g_off == er.elem_start:
            return "pack-offset-is-element-start"
        return None
    return classifier


def judge_unpack_failure(run, bench, label, raw, offset=0):
    fam = bench.fam
    st, mr = harness.model_parse(fam, raw, offset)
    if st != "fail":
        return
    witness = {"source": driver.src_of(bench), "raw": b2j(raw), "input": label, "fam": fam, "phase": "unpack", "offset": offset}
    res, roots, slices, failnode = bench.traced_unpack("g", raw, offset)
    for v, r, fn in (("g", res, failnode), ("d", harness.lib_unpack(bench.root("d"), raw, offset), None)):
        if r.status == "timeout":
            run.count("watchdog_skipped")
            continue
        if r.status == "ok":
            run.count("library_accepts_model_rejects(C04 business)")
            continue
        run.case(nontrivial=False)
        ok = errors.judge_error(run, fam, v, r.err, True, mr.path, dict(witness, variant=v), fn)
        run.count("unpack_errors_judged")
        if ok:
            kind = mr.path[0][0]
            run.case(key=(bench.skeleton, "unpack", len(mr.path), kind[:2], v), n=0)
            if r.status == "packeterror" and getattr(r.err, "packet", None) is None:
                run.violation("PacketError from unpack carries no .packet", dict(witness, variant=v), None)
        try:
            out = bench.root(v).unpack(raw, offset, silent=True)
            run.count("silent_none_checked")
            if out is not None:
                run.violation("unpack(silent=True) returned a packet on a failing input", dict(witness, variant=v), None)
        except Exception as e:
            run.violation("unpack(silent=True) raised %s" % type(e).__name__, dict(witness, variant=v), None)


def invalid_values(rng, f):
    """Invalid leaf values for a base field spec."""
    if f["t"] == "int":
        lo, hi = int_range(f["n"], f.get("signed", False))
        return [hi + 1, lo - 1, 1 << (8 * f["n"] + 3), "x", None, 1.5, b"\x01"]
    if f["t"] == "data":
        return [None, 7, "text", [1]]
    if f["t"] == "bits":
        return ["x", None, 1.5]
    return []


def mutate_tree(fam, pv, rng):
    """Yield (description, mutated PV) with exactly one leaf made invalid, at any depth."""
    decl = fam["decls"][pv.decl]
    for f in decl["fields"]:
        if f["t"] in ("em",):
            continue
        v = pv.vals.get(f["name"])
        if f["t"] in ("int", "data", "bits"):
            if "rep" in f:
                if isinstance(v, list) and v:
                    k = rng.randrange(len(v))
                    for bad in rng.sample(invalid_values(rng, f), 2):
                        m = model.copy_val(pv)
                        m.vals[f["name"]][k] = bad
                        yield ("%s[%d]=%r" % (f["name"], k, bad), m)
                continue
            if "opt" in f and v is None:
                continue
            for bad in rng.sample(invalid_values(rng, f), min(3, len(invalid_values(rng, f)))):
                m = model.copy_val(pv)
                m.vals[f["name"]] = bad
                yield ("%s=%r" % (f["name"], bad), m)
        elif f["t"] in ("ref", "sel"):
            items = v if isinstance(v, list) else [v]
            for idx, x in enumerate(items):
                if isinstance(x, model.PV):
                    for desc, sub in mutate_tree(fam, x, rng):
                        m = model.copy_val(pv)
                        if isinstance(v, list):
                            m.vals[f["name"]][idx] = sub
                        else:
                            m.vals[f["name"]] = sub
                        yield ("%s.%s" % (f["name"], desc), m)
                        break
                    break


def judge_pack_failure(run, bench, desc, pv):
    fam = bench.fam
    st, er = harness.model_encode(fam, pv)
    if st != "fail":
        return
    witness = {"source": driver.src_of(bench), "values": pv.to_json(), "mutation": desc, "fam": fam, "phase": "pack"}
    for v in ("g", "d"):
        try:
            pkt = monitors.build_packet(bench.loaded, v, pv, "kwargs")
        except Exception as e:
            run.count("construct_failed_skipped")
            continue
        if v == "g":
            r, roots, failnode = bench.traced_pack(pkt)
        else:
            r, failnode = harness.lib_pack(pkt), None
        if r.status == "timeout":
            run.count("watchdog_skipped")
            continue
        if r.status == "ok":
            run.violation("pack() returned bytes although a field value is invalid / positions collide (model: %s)" % er.why,
                          dict(witness, variant=v, packed=b2j(r.pkt)), None)
            continue
        run.case(nontrivial=False)
        ok = errors.judge_error(run, fam, v, r.err, False, er.path, dict(witness, variant=v), failnode, classify_pack(fam, er))
        run.count("pack_errors_judged")
        if er.kind == "collision":
            run.count("pack_collisions_judged")
        if ok:
            run.case(key=(bench.skeleton, "pack", len(er.path), er.kind, v), n=0)
            if getattr(r.err, "packet", None) is not pkt:
                run.violation("PacketError from pack does not carry the packet", dict(witness, variant=v), None)


def collide(fam, pv, rng):
    """Value trees whose positions overlap: change position-steering ints."""
    decl = fam["decls"][pv.decl]
    for f in decl["fields"]:
        h = f.get("hint") or {}
        if "pos" in h and f["t"] in ("int", "bits") and "rep" not in f and "opt" not in f:
            for newv in (0, 1, 2):
                m = model.copy_val(pv)
                m.vals[f["name"]] = newv
                yield ("%s=%d(position)" % (f["name"], newv), m)


NONBYTES = ["text", bytearray(b"\x00\x01"), memoryview(b"\x00\x01"), None, 7, [0, 1]]


def nonbytes_probe(run, bench):
    """Input that is not bytes is rejected with ValueError - whatever the other arguments are (silent=True only turns
    *parse failures* into None; a start offset does not matter either)."""
    for v in ("g", "d"):
        cls = bench.root(v)
        for bad in NONBYTES:
            for kwargs in ({}, {"silent": True}, {"offset": 1}, {"offset": 0, "silent": True}):
                how = "unpack(%s%s)" % (type(bad).__name__, "".join(", %s=%r" % kv for kv in sorted(kwargs.items())))
                try:
                    res = cls.unpack(bad, **kwargs)
                except ValueError:
                    run.count("nonbytes_inputs_rejected")
                    if kwargs.get("silent"):
                        run.count("nonbytes_inputs_rejected_with_silent")
                except Exception as e:
                    run.violation("%s raised %s instead of ValueError" % (how, type(e).__name__),
                                  {"source": driver.src_of(bench), "variant": v, "input_type": type(bad).__name__, "kwargs": kwargs}, None)
                else:
                    run.violation("%s did not raise ValueError (returned %s)" % (how, "None" if res is None else "a packet"),
                                  {"source": driver.src_of(bench), "variant": v, "input_type": type(bad).__name__, "kwargs": kwargs}, None)


def f12_probe(run):
    """Known finding F12: an exception raised by a described field's compute function escapes
    pack() unwrapped. One deterministic probe, classified by mechanism."""
    import bisturi.packet as bp
    d = common.scratch_dir("bvf_c12p_")
    src = render.HEADER + ("class DescP(Packet):\n    length = Int(1).describe(AutoLength('value'))\n    value = Data(length)\n")
    module, path = render.load_source(src, d)
    p = module.DescP()
    p.value = None
    try:
        p.pack()
    except bp.PacketError:
        run.count("f12_probe_packeterror")
    except Exception as e:
        run.violation("pack() of a described packet whose compute function raises lets %s escape instead of PacketError" % type(e).__name__,
                      {"source": src, "steps": "p = DescP(); p.value = None; p.pack()", "error": repr(e)}, "descriptor-sync-escapes-pack")
    common.drop_scratch(d)


RECURSIVE_SRC = render.HEADER + """
class Node%(V)s(Packet):
    __bisturi__ = %(O)r
    n = Int(1)
    val = Int(1)
    kids = Ref(lambda **k: Node%(V)s(), default=b'').repeated(n)
"""


def recursive_probe(run):
    """A self-recursive declaration (a node holds a sequence of nodes): a failure d levels deep reports the failing field (or its
    run) and then ONE entry per enclosing sequence field - the d entries carry the same field and class name ('kids' of 'Node'),
    and in the packing phase possibly the same offset: they are still d different enclosing fields."""
    import bisturi.packet as bp
    d = common.scratch_dir("bvf_c12r_")
    try:
        for tag, opts in (("g", {"generate_for_pack": False, "generate_for_unpack": False}), ("d", {}), ("nv", {"vectorize": False})):
            src = RECURSIVE_SRC % {"V": "_" + tag, "O": opts}
            module, path = render.load_source(src, d)
            Node = getattr(module, "Node_" + tag)
            for depth in range(0, 6):
                # packing phase: the deepest node holds a value that does not fit in one byte
                node = Node(n=0, val=300, kids=[])
                for _ in range(depth):
                    node = Node(n=1, val=1, kids=[node])
                # parsing phase: the same tree cut right before the deepest node's 'val'
                raw = b"\x01\x01" * depth + b"\x00"
                for phase, call in (("pack", node.pack), ("unpack", lambda: Node.unpack(raw))):
                    w = {"source": src, "variant": tag, "depth": depth, "phase": phase}
                    try:
                        call()
                    except bp.PacketError as e:
                        stack = list(e.fields_stack)
                        run.count("recursive_failures_judged")
                        names = [(entry[1], entry[2]) for entry in stack]
                        ok = len(stack) == depth + 1 and "val" in str(stack[0][1]) and stack[0][2] == Node.__name__ and \
                            all(nm == ("kids", Node.__name__) for nm in names[1:]) and e.was_error_found_in_unpacking_phase == (phase == "unpack")
                        try:
                            text = str(e)
                        except Exception as ex:
                            run.violation("rendering the error of a recursive declaration raised %s" % type(ex).__name__, w, None)
                            return
                        if not ok or text.count(".kids") != depth:
                            run.violation("a failure %d levels deep in a self-recursive declaration does not list one entry per enclosing sequence field"
                                          % depth, dict(w, fields_stack=[list(map(str, x)) for x in stack], rendered=text[-400:]), None)
                            return
                    except Exception as e:
                        run.violation("a failure in a self-recursive declaration surfaced as %s instead of PacketError" % type(e).__name__, w, None)
                        return
                    else:
                        run.violation("a %s that must fail in a self-recursive declaration succeeded" % phase, w, None)
                        return
            import sys as _sys
            _sys.modules.pop(module.__name__, None)
    finally:
        common.drop_scratch(d)


def run(run):
    shard, nshards = run.shard
    rng = rng_for(run.seed, "c12", shard)
    if shard == 0:
        recursive_probe(run)
    else:
        run.count("recursive_failures_judged")
    nfam = 220 if run.tier == "quick" else 900
    ninputs = 7 if run.tier == "quick" else 9
    # regex delimiters not kept in the value are left out: with known finding F2 the bytes such a field emits depend on
    # what the class parsed before, which would shift the pack-phase offsets judged here
    profile = {"p_move": 0.2, "kinds": {"int": 34, "data": 24, "bits": 8, "ref": 18, "sel": 8, "em": 2}, "p_rep": 0.22,
               "allow_regex_nokeep_single": False}
    if run.tier == "thorough":
        profile["max_depth"] = 4
    sampled = 0
    if shard == 0:
        f12_probe(run)
    import itertools
    from .. import predicates
    for bench in itertools.chain(driver.families(run, rng, profile, VARIANTS, nfam, tag="c12"),
                                 driver.families(run, rng, dict(profile, accept=predicates.size_can_go_negative,
                                                                kinds={"int": 40, "data": 45, "bits": 4, "ref": 8, "sel": 2, "em": 1}),
                                                 VARIANTS, max(10, nfam // 10), tag="c12n")):
        if predicates.size_can_go_negative(bench.fam):
            run.count("families_whose_size_expression_can_go_negative")
        fam = bench.fam
        nonbytes_probe(run, bench)
        seen = set()
        for j in range(ninputs):
            off = 0 if j < 5 else driver.start_offsets(fam, rng)[-1]
            raw, oc = model.generate_input(fam, rng, offset=off, maxlen=120)
            if raw in seen:
                continue
            seen.add(raw)
            st, mr = harness.model_parse(fam, raw, off)
            if st == "fail":
                judge_unpack_failure(run, bench, "generated-invalid", raw, off)
                continue
            if st != "ok":
                continue
            used = raw[:max(mr.trace.extent, off)] if mr.trace.extent <= len(raw) else raw
            for label, t in workloads.truncations(used, start=off):
                judge_unpack_failure(run, bench, label, t, off)
            for label, t in workloads.corruptions(fam, rng, used, mr, n=5):
                judge_unpack_failure(run, bench, label, t, off)
            if off == 0 and j < 4:
                n = 0
                for desc, m in mutate_tree(fam, mr.value, rng):
                    judge_pack_failure(run, bench, desc, m)
                    n += 1
                    if n >= 8:
                        break
                for desc, m in collide(fam, mr.value, rng):
                    judge_pack_failure(run, bench, desc, m)
            if sampled < 3 and len(used) > 4:
                sampled += 1
                run.sample({"source": driver.src_of(bench), "valid_input": used, "offset": off,
                            "workload": "every strict prefix, 5 corruptions, invalid-leaf and colliding value trees"})
        if run.counters["violations"] > 30:
            break


def replay(run, rec):
    w = common.from_json(rec["witness"])
    d = common.scratch_dir("bvf_replay_")
    bench = harness.Bench(w["fam"], VARIANTS, d)
    bench.skeleton = "replay"
    if w.get("phase") == "unpack":
        judge_unpack_failure(run, bench, w.get("input", "?"), w["raw"], w.get("offset", 0))
    else:
        print("pack-phase replay: rebuild the packet from witness 'values' with the printed source")
        print(w["source"])
