"""C14  Parsing depends only on the bytes it consumes.

Metamorphic, model-free: for declarations without start-of-data positioning and without
callbacks that inspect the raw buffer,
    unpack(pre + raw + post, len(pre))  vs  unpack(raw)
must give equal value trees with the end offset shifted by len(pre); a failing input (post
empty) must fail the same way with every fields_stack offset shifted by len(pre).  pre/post are
hostile: they contain the declaration's delimiters, bytes that parse as large counts, and
copies of raw.  post is appended after the *extent* of the parse (the highest cursor reached;
with backward at/shift the final cursor is smaller) and is omitted when the declaration has a
read-to-end field or a regex delimiter whose match appended bytes could lengthen.
"""
from .. import predicates, common, driver, harness, model, monitors, render, workloads
from ..common import rng_for, b2j
from ..spec import MARKERS

LEVEL = "exploration"
SHARDS = {"quick": 1, "thorough": 16}
REQUIRED = ("families_with_counted_sequences_of_possibly_empty_elements", "families_ending_in_an_odd_width_int", "prefix_cases", "suffix_cases", "failing_cases_shifted", "values_compared", "end_offsets_compared",
            "raw_slice_equivalence", "hostile_pre_with_delimiters", "nested_families", "moves_under_offset",
            "inputs_of_declarations_with_a_position_before_the_wrapper", "same_object_reparses", "page_boundary_prefix_cases", "corrupted_inputs", "steering_bytes_swept_over_small_negative_values")
MIN_NONTRIVIAL = 150
RULE = {
    "quick": "~140 families of mostly fixed-size fields placed back over consumed bytes (at / negative shift) + ~420 generated families (no 'begins' reference, no class align, no repeated(aligned=), no raw/offset callbacks) x 8 inputs x 4 "
             "paddings (prefix only, suffix only, both, long prefix made of copies of raw/delimiters/0xff) + failing inputs (truncations) with prefixes; "
             "generic and generated variants. Non-trivial = padded run of an input whose unpadded parse consumed at least one byte; distinct = "
             "(skeleton, padding kind, outcome).",
    "thorough": "16 shards x 2000 families x 10 inputs.",
}
ASSUMPTIONS = [
    "excluded by the statement: positioning relative to the start of the data (begins: default of aligned(), class align, repeated(aligned=)) and callbacks reading raw/offset",
    "the parsed region is [offset, highest cursor reached); post is omitted for declarations with a read-to-end field or a regex delimiter that appended bytes could lengthen (\\x00+, \\n|$, ab|a)",
]

VARIANTS = {"g": render.VARIANTS["g"], "d": {}}
LENGTHENABLE = ("nuls", "nl_or_end", "ab_or_a")


def post_allowed(fam):
    for d in fam["decls"].values():
        for f in d["fields"]:
            if f["t"] == "data" and (f["mode"] == "eos" or (f["mode"] == "regex" and f["rx"] in LENGTHENABLE)):
                return False
            if f["t"] == "sel":
                for o in f["options"].values():
                    if o["t"] == "data" and o.get("mode") in ("eos", "regex"):
                        return False
    return True


def hostile(rng, raw, n):
    kind = rng.choice(["delims", "copies", "ff", "random", "zeros"])
    if kind == "delims":
        parts = MARKERS + [b"\n", b"\r\n", b",", b"xx", b"a", b"\x00\x00", b"\\", b"z", b'"']
        out = b"".join(rng.choice(parts) for _ in range(n))[:n]
    elif kind == "copies":
        out = (raw * (n // max(len(raw), 1) + 1))[:n] if raw else b"\x01" * n
    elif kind == "ff":
        out = b"\xff" * n
    elif kind == "zeros":
        out = b"\x00" * n
    else:
        out = bytes(rng.randrange(256) for _ in range(n))
    return kind, out + b"\x07" * (n - len(out))


def summarize(fam, r):
    if r.status == "ok":
        try:
            return ("ok", monitors.pkt_to_pv(fam, fam["root"], r.pkt), r.end)
        except monitors.Unreadable as e:
            return ("unreadable", str(e))
    if r.status == "packeterror":
        return ("packeterror", [(o, n, c) for (o, n, c) in r.err.fields_stack])
    if r.status == "timeout":
        return ("timeout",)
    return ("exception", r.etype)


def same_object_reparse(run, bench, rng, used, can_post):
    """One bytes object parsed several times at different offsets, later parses at *smaller* offsets (records read
    last-to-first): whatever a field remembers about the buffer of the previous call must not leak into the next one.
    big = pre + used + used: the parse at the second copy has only a prefix; the parse at the first copy (afterwards,
    same object) has the second copy as suffix and is judged only where suffixes are (post_allowed)."""
    fam = bench.fam
    if not used:
        return
    for v in ("g", "d"):
        cls = bench.root(v)
        base = summarize(fam, harness.lib_unpack(cls, used, 0))
        if base[0] not in ("ok", "packeterror"):
            continue
        k, pre = hostile(rng, used, rng.choice([0, 1, 2, 5]))
        big = pre + used + used
        offs = [len(pre) + len(used)]
        if can_post and base[0] == "ok":
            offs.append(len(pre))
        # a parse somewhere in between (any outcome) so that the remembered buffer position is not a record start
        harness.lib_unpack(cls, big, len(big) - 1)
        for off in offs:
            got = summarize(fam, harness.lib_unpack(cls, big, off))
            if got[0] == "timeout":
                continue
            run.count("same_object_reparses")
            witness = {"source": driver.src_of(bench, v), "raw": b2j(used), "pre": b2j(big[:off]), "post": b2j(big[off + len(used):]), "variant": v,
                       "padding": "same-object:%s" % k, "fam": fam, "history": "unpack(big, %d) (any outcome), then descending offsets %r on the same bytes object" % (len(big) - 1, offs)}
            if base[0] == "ok":
                same = got[0] == "ok" and got[1] == base[1] and got[2] == base[2] + off
            else:
                same = got[0] == "packeterror" and got[1] == [(o + off, n, c) for (o, n, c) in base[1]]
            if not same:
                run.violation("re-parsing the same bytes object at a smaller offset gives another result than parsing the record alone (offset %d)" % off,
                              dict(witness, alone=repr(base)[:300], padded=repr(got)[:300]), None)
                break


def page_boundary_prefixes(run, bench, rng, used):
    """Prefixes of a few KiB whose length puts a byte boundary inside the record exactly on an absolute multiple of 4096 (and of
    256): an in-place search that walks the buffer in blocks must find a delimiter that straddles the block edge.  Pure prefix
    relation (no model, no suffix)."""
    fam = bench.fam
    if len(used) < 2:
        return
    delimited = any(f["t"] == "data" and f.get("mode") in ("marker", "regex") for d in fam["decls"].values() for f in d["fields"])
    if not delimited and rng.random() > 0.15:
        return
    for v in ("g", "d"):
        cls = bench.root(v)
        base = summarize(fam, harness.lib_unpack(cls, used, 0))
        if base[0] not in ("ok", "packeterror"):
            continue
        for j in rng.sample(range(1, len(used)), min(2, len(used) - 1)):
            n = rng.choice([4096, 4096, 8192, 256]) - j
            if n <= 0:
                continue
            kind, unit = hostile(rng, used, 48)
            pre = (unit * (n // 48 + 1))[:n]
            got = summarize(fam, harness.lib_unpack(cls, pre + used, n))
            if got[0] == "timeout":
                continue
            run.count("page_boundary_prefix_cases")
            if base[0] == "ok":
                same = got[0] == "ok" and got[1] == base[1] and got[2] == base[2] + n
            else:
                same = got[0] == "packeterror" and got[1] == [(o + n, nm, c) for (o, nm, c) in base[1]]
            if not same:
                run.violation("the outcome changes behind a prefix that puts byte %d of the record on an absolute multiple of %d (pagepre:%s)" % (j, n + j, kind),
                              {"source": driver.src_of(bench, v), "raw": b2j(used), "pre": b2j(pre), "post": b2j(b""), "variant": v,
                               "padding": "pagepre:%s" % kind, "fam": fam, "alone": repr(base)[:300], "padded": repr(got)[:300]}, None)
                break


def one_input(run, bench, rng, raw, sampled):
    fam = bench.fam
    st, mr = harness.model_parse(fam, raw, 0)
    if st == "undefined":
        return
    used = raw
    if st == "ok" and mr.trace.extent <= len(raw):
        used = raw[:mr.trace.extent]
    can_post = post_allowed(fam)
    if any("lost_move" in f for d in fam["decls"].values() for f in d["fields"]):
        # a position written before .when()/.repeated(): the reference model has no opinion on what it does, so neither
        # the extent of the parsed region nor suffixes are derived from it; the prefix relation needs no model
        used = raw
        can_post = False
        run.count("inputs_of_declarations_with_a_position_before_the_wrapper")
    for v in ("g", "d"):
        cls = bench.root(v)
        base = summarize(fam, harness.lib_unpack(cls, used, 0))
        if base[0] in ("timeout", "exception", "unreadable"):
            run.count("base_%s_skipped" % base[0])
            continue
        # raw[offset:] equivalence + paddings
        pads = []
        n1 = rng.choice([1, 2, 3, 5, 8])
        k, pre = hostile(rng, used, n1)
        pads.append(("pre:" + k, pre, b""))
        k2, pre2 = hostile(rng, used, rng.choice([13, 21, 40]))
        pads.append(("longpre:" + k2, pre2, b""))
        if (base[0] == "ok" or st == "ok") and can_post:
            # (when the reference model says the region [0, extent) is a complete valid input, the outcome must not
            #  depend on bytes appended after it even if the library rejects it: rejecting alone and accepting with
            #  more bytes behind is context dependence too)
            k3, post = hostile(rng, used, rng.choice([1, 2, 4, 9]))
            pads.append(("post:" + k3, b"", post))
            k4, pre4 = hostile(rng, used, rng.choice([1, 4, 7]))
            pads.append(("both:" + k4, pre4, post))
        for label, pre, post in pads:
            big = pre + used + post
            off = len(pre)
            got = summarize(fam, harness.lib_unpack(cls, big, off))
            if got[0] == "timeout":
                continue
            witness = {"source": driver.src_of(bench, v), "raw": b2j(used), "pre": b2j(pre), "post": b2j(post), "variant": v,
                       "padding": label, "fam": fam}
            run.case(key=(bench.skeleton, label.split(":")[0], base[0], v), nontrivial=len(used) > 0)
            if pre:
                run.count("prefix_cases")
                if label.split(":")[1] == "delims":
                    run.count("hostile_pre_with_delimiters")
            if post:
                run.count("suffix_cases")
            if any("move" in f for d in fam["decls"].values() for f in d["fields"]) and pre:
                run.count("moves_under_offset")
            if base[0] == "ok":
                if got[0] != "ok":
                    run.violation("an input that parses alone fails when surrounded by other bytes (%s)" % label,
                                  dict(witness, error=repr(got)[:300]), None)
                    continue
                run.count("values_compared")
                if got[1] != base[1]:
                    run.violation("parsed values change when bytes are placed before/after the parsed region (%s)" % label,
                                  dict(witness, alone=base[1].to_json(), padded=got[1].to_json()), None)
                    continue
                run.count("end_offsets_compared")
                if got[2] != base[2] + off:
                    run.violation("end offset is not shifted by exactly the start offset (%s): alone %r, padded %r, offset %d" % (label, base[2], got[2], off),
                                  witness, None)
                    continue
                if post == b"" and pre:
                    run.count("raw_slice_equivalence")
            else:
                # failing input: same failure, offsets shifted
                if post and got[0] == "ok":
                    run.count("suffix_changes_outcome")
                    run.violation("an input that is complete per the declaration is rejected alone but accepted when bytes are appended after it (%s)" % label,
                                  dict(witness, alone=repr(base)[:200]), None)
                    continue
                if post:
                    continue
                if got[0] != "packeterror":
                    run.violation("an input that fails alone is accepted (or fails differently) behind a prefix (%s): %s" % (label, got[0]), witness, None)
                    continue
                run.count("failing_cases_shifted")
                want = [(o + off, n, c) for (o, n, c) in base[1]]
                if got[1] != want:
                    run.violation("error positions are not shifted by exactly the start offset (%s)" % label,
                                  dict(witness, alone=base[1], padded=got[1]), None)
                    continue
    same_object_reparse(run, bench, rng, used, can_post)
    page_boundary_prefixes(run, bench, rng, used)
    if sampled[0] < 3 and st == "ok" and len(used) > 3:
        sampled[0] += 1
        run.sample({"source": driver.src_of(bench), "raw": used, "paddings": "pre / long pre / post / both, hostile content"})


def run(run):
    shard, nshards = run.shard
    rng = rng_for(run.seed, "c14", shard)
    nfam = 420 if run.tier == "quick" else 2000
    ninputs = 8 if run.tier == "quick" else 10
    profile = {"allow_begins": False, "allow_raw_callbacks": False, "p_class_align": 0.0, "p_move": 0.22, "p_move_first": 0.3,
               "references": {"innermost-pkt": 5, "begins": 0, "current-offset": 3}}
    if run.tier == "thorough":
        profile["max_depth"] = 4
    sampled = [0]
    # second population: mostly fixed-size fields, many of them placed back over bytes an earlier field consumed (at / negative
    # shift): packets shorter than the sum of their fields, whose input ends exactly where the packet ends
    overlap = dict(profile, p_move=0.5, p_backward_at=0.75, moves={"at": 5, "shift": 5, "aligned": 1}, p_rep=0.04, p_opt=0.03, p_move_first=0.0,
                   kinds={"int": 60, "data": 28, "bits": 4, "ref": 7, "sel": 0, "em": 1}, max_fields=5, int_widths=[1, 1, 2, 2, 4, 3])
    import itertools
    def ends_in_an_odd_width_int(fam):
        # the parsed region ends in an integer that has no primitive width (decoded by the library's own loop, where a
        # "one more byte is there" shortcut would live): its value must not depend on whether bytes follow
        root = fam["decls"][fam["root"]]["fields"]
        f = root[-1] if root else None
        return bool(f) and f["t"] == "int" and f["n"] in (3, 5, 6, 7) and not any(k in f for k in ("rep", "opt", "move", "lost_move"))
    tail_int = dict(profile, int_widths=[3, 3, 5, 6, 7, 1, 2], kinds={"int": 70, "data": 20, "bits": 4, "ref": 5, "sel": 0, "em": 1},
                    p_class_endianness=0.5, p_move=0.05, p_move_first=0.0, p_rep=0.05, p_opt=0.03, accept=ends_in_an_odd_width_int)
    for bench in itertools.chain(driver.families(run, rng, profile, VARIANTS, nfam, instrument=(), tag="c14"),
                                 driver.families(run, rng, overlap, VARIANTS, nfam // 3, instrument=(), tag="c14o"),
                                 driver.families(run, rng, tail_int, VARIANTS, nfam // 7, instrument=(), tag="c14t"),
                                 driver.families(run, rng, dict(profile, accept=predicates.counted_sequence_of_possibly_empty_elements, p_rep=0.4,
                                                                kinds={"int": 40, "data": 45, "bits": 3, "ref": 8, "sel": 3, "em": 1}),
                                                 VARIANTS, nfam // 10, instrument=(), tag="c14z"),
                                 driver.families(run, rng, dict(profile, accept=predicates.early_computed_size_that_can_go_negative, p_move=0.05, p_rep=0.05,
                                                                p_opt=0.05, kinds={"int": 50, "data": 42, "bits": 2, "ref": 4, "sel": 1, "em": 1},
                                                                int_widths=[1, 1, 1, 2]),
                                                 VARIANTS, nfam // 10, instrument=(), tag="c14n")):
        negsize = predicates.early_computed_size_that_can_go_negative(bench.fam)
        if predicates.counted_sequence_of_possibly_empty_elements(bench.fam):
            run.count("families_with_counted_sequences_of_possibly_empty_elements")
        if ends_in_an_odd_width_int(bench.fam):
            run.count("families_ending_in_an_odd_width_int")
        fam = bench.fam
        # repeated(aligned=) is relative to the start of the data: drop such families (statement exclusion)
        if harness.has_begins_reference(fam) or harness.uses_raw_callbacks(fam):
            run.count("families_excluded_by_statement")
            continue
        if len(fam["order"]) > 1:
            run.count("nested_families")
        for j in range(ninputs):
            raw, oc = model.generate_input(fam, rng, maxlen=120)
            one_input(run, bench, rng, raw, sampled)
            if j % 3 == 0 and len(raw) > 1:
                k = rng.randrange(len(raw))
                one_input(run, bench, rng, raw[:k], sampled)
            if j % 3 == 1 and raw:
                # malformed inputs (a steering byte replaced): sizes that come out negative or huge, unknown selector keys, ...
                st0, mr0 = harness.model_parse(fam, raw, 0)
                bads = [bad for _, bad in workloads.corruptions(fam, rng, raw, mr0 if st0 == "ok" else None, n=2)]
                # steering bytes set to values that read as small negative numbers in signed fields and make differences
                # `c - field` negative: a size of -(cursor + k) moves the cursor k bytes before the start of the record,
                # where what is found depends on whether there is a prefix
                steer = workloads.interesting_positions(fam, mr0) if st0 == "ok" else []
                for p in rng.sample(steer, min(len(steer), 2)):
                    if p < len(raw):
                        b = bytearray(raw)
                        b[p] = rng.choice([0xFF, 0xFE, 0xFD, 0xFC, 0xFB, 0xFA, 0xF8, 0, 4, 5, 6, 7])
                        bads.append(bytes(b))
                for bad in bads:
                    if bad != raw:
                        run.count("corrupted_inputs")
                        one_input(run, bench, rng, bad, sampled)
        if negsize:
            # every small negative / small positive value of each steering byte of one valid input: a size of -(cursor + k)
            # puts the cursor k bytes before the start of the record
            run.count("families_with_an_early_computed_size_that_can_go_negative")
            raw, oc = model.generate_input(fam, rng, maxlen=60)
            st0, mr0 = harness.model_parse(fam, raw, 0)
            steer = [p for p in (workloads.interesting_positions(fam, mr0) if st0 == "ok" else []) if p < min(len(raw), 6)]
            for p in steer[:3]:
                for val in (0xFF, 0xFE, 0xFD, 0xFC, 0xFB, 0xFA, 0xF9, 0xF8, 0, 1, 2, 3):
                    b = bytearray(raw)
                    b[p] = val
                    if bytes(b) != raw:
                        run.count("corrupted_inputs")
                        run.count("steering_bytes_swept_over_small_negative_values")
                        one_input(run, bench, rng, bytes(b), sampled)
        if run.counters["violations"] > 30:
            break


def replay(run, rec):
    w = common.from_json(rec["witness"])
    d = common.scratch_dir("bvf_replay_")
    bench = harness.Bench(w["fam"], VARIANTS, d, instrument=())
    bench.skeleton = "replay"
    fam = w["fam"]
    v = w["variant"]
    cls = bench.root(v)
    base = summarize(fam, harness.lib_unpack(cls, w["raw"], 0))
    got = summarize(fam, harness.lib_unpack(cls, w["pre"] + w["raw"] + w["post"], len(w["pre"])))
    print("alone :", base)
    print("padded:", got)
    off = len(w["pre"])
    same = (base[0] == got[0] == "ok" and base[1] == got[1] and got[2] == base[2] + off) or \
           (base[0] == got[0] == "packeterror" and got[1] == [(o + off, n, c) for (o, n, c) in base[1]])
    if not same:
        run.violation("replayed padding case still differs", rec["witness"], None)
