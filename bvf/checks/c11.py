"""C11  The fragment buffer is a sparse byte array.

History + executable model.  Every inserted byte value is unique within a history, so a
lost, overwritten or misplaced byte identifies the operation that caused it.  The oracle is
a shadow `dict position -> byte` plus the extent (largest end position ever inserted) and
the cursor; it is compared with the real `Fragments` after *every* operation.

Part A: all histories up to a length bound over insert(p in 0..7, len in 0..3) / append(len)
        (exhaustive), executed against bisturi.fragments.Fragments.
Part B: seeded random histories (up to 40 ops, positions 0..96, chunks 0..9 bytes, extend()).
Part C: every real Packet.pack() of a stream of generated declarations runs with
        bisturi.packet.Fragments replaced by a monitored subclass carrying the same shadow.
Part D: the repository's own 40 unit tests run in-process under the same monitored subclass.
"""
import itertools

from ..common import rng_for, b2j

LEVEL = "exploration"
SHARDS = {"quick": 1, "thorough": 16}
EXHAUSTIVE = True
REQUIRED = ("histories_on_buffers_with_another_fill_byte", "inserts_accepted", "inserts_rejected", "tobytes_compared", "pack_calls_monitored", "repo_test_packs_monitored")
MIN_NONTRIVIAL = 50
RULE = {
    "quick": "Part A: every history of length<=3 over 36 operations (insert(p,len) p in 0..7 len in 0..3; append(len)) "
             "- exhaustive; Part B: 20000 seeded random histories (<=40 ops, positions 0..96, len 0..9, extend); "
             "Part C: real Packet.pack() calls of generated declarations under a shadowing Fragments subclass. "
             "A history is non-trivial when it contains an out-of-order, adjacent, overlapping or empty insert "
             "(i.e. is not a plain forward append sequence); distinct = distinct operation sequences.",
    "thorough": "Part A: every history of length<=4 over 36 operations (1.7M, exhaustive, sharded by first op); "
                "Part B: 1M seeded random histories; Part C as quick with more declarations. Non-trivial/distinct as in quick.",
}
ASSUMPTIONS = [
    "the shadow model (dict position->byte, extent, cursor) is the specification of C11",
    "an *empty* chunk is only required not to alter stored bytes and, when accepted, to extend the extent; "
    "whether it may raise is not fixed by the property and is not judged",
    "the fill byte is the one the buffer was created with (default b'.'; one random history in three uses '#', NUL or '-')",
]

FILL = 0x2E
OTHER_FILLS = (0x23, 0x00, 0x2D)     # buffers created with another fill byte (Fragments(fill=...)); never produced by fresh_bytes below


class Shadow:
    """Executable specification of the buffer."""

    def __init__(self, fill=FILL):
        self.bytes = {}
        self.extent = 0
        self.cursor = 0
        self.fill = fill

    def occupied(self, p, n):
        return [q for q in range(p, p + n) if q in self.bytes]

    def store(self, p, data):
        for j, b in enumerate(data):
            self.bytes[p + j] = b
        self.extent = max(self.extent, p + len(data))
        self.cursor = p + len(data)

    def render(self):
        return bytes(self.bytes.get(q, self.fill) for q in range(self.extent))


def fresh_bytes(counter, n):
    out = []
    for _ in range(n):
        v = counter[0] % 255
        counter[0] += 1
        if v >= FILL:
            v += 1
        out.append(v)
    return bytes(out)


def check_history(run, Fragments, ops, label, fill=FILL):
    """Execute ops on a real Fragments and on the shadow in lock-step.
    ops: list of ('insert', p, n) | ('append', n) | ('extend', [n...]).  Returns False on violation."""
    fr = Fragments() if fill == FILL else Fragments(fill=bytes([fill]))
    sh = Shadow(fill)
    if fill != FILL:
        run.count("histories_on_buffers_with_another_fill_byte")
    counter = [1]
    log = []
    empties = []  # positions of accepted empty chunks (for mechanism classification)

    def one_insert(kind, p, data):
        before = sh.render()
        before_cursor = fr.current_offset
        try:
            if kind == "append":
                fr.append(data)
            else:
                fr.insert(p, data)
            raised = None
        except Exception as e:  # Fragments raises plain Exception on collision
            raised = "%s: %s" % (type(e).__name__, str(e)[:80])
        log.append([kind, p, b2j(data), raised])
        n = len(data)
        if n > 0:
            occ = sh.occupied(p, n)
            if occ and raised is None:
                run.violation("non-empty insert over occupied bytes was accepted (bytes silently overwritten/merged)",
                              {"part": label, "history": log, "occupied": occ}, None)
                return False
            if not occ and raised is not None:
                mech = None
                if any(p <= q < p + n for q in empties) or any(q == p for q in empties):
                    mech = "collision-with-empty-chunk"
                run.violation("non-empty insert over free bytes raised although no byte of [p,p+len) is occupied",
                              {"part": label, "history": log}, mech)
                return False
            if raised is not None:
                run.count("inserts_rejected")
                if fr.tobytes() != before or fr.current_offset != before_cursor:
                    run.violation("rejected insert changed the buffer or the cursor",
                                  {"part": label, "history": log, "before": b2j(before), "after": b2j(fr.tobytes())}, None)
                    return False
                return True
            run.count("inserts_accepted")
            sh.store(p, data)
        else:
            if raised is not None:
                run.count("empty_inserts_rejected")
                if fr.tobytes() != before:
                    run.violation("rejected empty insert changed the buffer",
                                  {"part": label, "history": log}, None)
                    return False
                return True
            run.count("empty_inserts_accepted")
            empties.append(p)
            sh.store(p, data)
        got = fr.tobytes()
        run.count("tobytes_compared")
        if got != sh.render():
            run.violation("tobytes() differs from the sparse-array model (lost/misplaced byte, wrong fill or wrong length)",
                          {"part": label, "history": log, "got": b2j(got), "want": b2j(sh.render())}, None)
            return False
        if fr.current_offset != sh.cursor:
            run.violation("cursor after insert is not p+len",
                          {"part": label, "history": log, "got": fr.current_offset, "want": sh.cursor}, None)
            return False
        return True

    for op in ops:
        if op[0] == "insert":
            if not one_insert("insert", op[1], fresh_bytes(counter, op[2])):
                return False
        elif op[0] == "append":
            if not one_insert("append", fr.current_offset, fresh_bytes(counter, op[1])):
                return False
        elif op[0] == "extend":
            # extend == successive appends; executed through the real extend(), checked at the end
            chunks = [fresh_bytes(counter, n) for n in op[1]]
            # predict with the shadow
            pred = Shadow(fill)
            pred.bytes = dict(sh.bytes)
            pred.extent, pred.cursor = sh.extent, sh.cursor
            will_raise = False
            for c in chunks:
                if len(c) and pred.occupied(pred.cursor, len(c)):
                    will_raise = True
                    break
                pred.store(pred.cursor, c)
            try:
                fr.extend(chunks)
                raised = None
            except Exception as e:
                raised = type(e).__name__
            log.append(["extend", fr.current_offset, [b2j(c) for c in chunks], raised])
            if will_raise != (raised is not None):
                mech = "collision-with-empty-chunk" if (raised and empties) else None
                run.violation("extend() accept/reject differs from the model", {"part": label, "history": log}, mech)
                return False
            if raised is None:
                sh.bytes, sh.extent, sh.cursor = pred.bytes, pred.extent, pred.cursor
                for c in chunks:
                    if not c:
                        empties.append(sh.cursor)
                run.count("tobytes_compared")
                if fr.tobytes() != sh.render() or fr.current_offset != sh.cursor:
                    run.violation("extend() result differs from the model", {"part": label, "history": log,
                                  "got": b2j(fr.tobytes()), "want": b2j(sh.render())}, None)
                    return False
            else:
                # partial effects of extend are allowed (earlier chunks stored); resync shadow from model prefix
                pred2 = Shadow(fill)
                pred2.bytes = dict(sh.bytes)
                pred2.extent, pred2.cursor = sh.extent, sh.cursor
                for c in chunks:
                    if len(c) and pred2.occupied(pred2.cursor, len(c)):
                        break
                    pred2.store(pred2.cursor, c)
                sh.bytes, sh.extent = pred2.bytes, pred2.extent
                sh.cursor = pred2.cursor
                if fr.tobytes() != sh.render():
                    run.violation("extend() that raised left a buffer different from 'chunks before the collision stored'",
                                  {"part": label, "history": log}, None)
                    return False
                fr.current_offset = sh.cursor
    return True


def is_nontrivial(ops):
    cur = 0
    for op in ops:
        if op[0] == "insert":
            if op[1] != cur or op[2] == 0:
                return True
            cur = op[1] + op[2]
        elif op[0] == "append":
            if op[1] == 0:
                return True
            cur += op[1]
        else:
            if any(n == 0 for n in op[1]):
                return True
            cur += sum(op[1])
    return False


def all_ops():
    ops = [("insert", p, n) for p in range(8) for n in range(4)]
    ops += [("append", n) for n in range(4)]
    return ops


def run(run):
    import bisturi.fragments as bf
    Fragments = bf.Fragments
    shard, nshards = run.shard
    rng = rng_for(run.seed, "c11", shard)
    OPS = all_ops()
    maxlen = 3 if run.tier == "quick" else 4

    # ---- Part A: exhaustive histories ------------------------------------------------------
    sampled = 0
    for L in range(1, maxlen + 1):
        for idx, hist in enumerate(itertools.product(OPS, repeat=L)):
            if nshards > 1 and (OPS.index(hist[0]) % nshards) != shard:
                continue
            nt = is_nontrivial(hist)
            run.case(key="A:" + repr(hist) if nt else None, nontrivial=nt)
            run.count("partA_histories")
            ok = check_history(run, Fragments, hist, "A")
            if nt and sampled < 2 and L == maxlen and idx % 9973 == 17:
                run.sample({"part": "A", "ops": hist})
                sampled += 1
            if not ok and run.counters["violations"] > 20:
                break
    run.extra["partA_max_history_length"] = maxlen
    run.extra["partA_operation_alphabet"] = len(OPS)

    # ---- Part B: random histories ----------------------------------------------------------
    nrand = 20000 if run.tier == "quick" else 1000000 // max(nshards, 1)
    for h in range(nrand):
        L = rng.randint(2, 40)
        maxpos = rng.choice([8, 16, 32, 96])
        hist = []
        for _ in range(L):
            r = rng.random()
            if r < 0.6:
                hist.append(("insert", rng.randint(0, maxpos), rng.choice([0, 1, 1, 2, 3, 5, 9])))
            elif r < 0.9:
                hist.append(("append", rng.choice([0, 1, 2, 3, 4])))
            else:
                hist.append(("extend", [rng.choice([0, 1, 2, 3]) for _ in range(rng.randint(1, 3))]))
        run.case(key="B:" + repr(hist), nontrivial=True)
        run.count("partB_histories")
        # one history in three runs on a buffer created with another fill byte (buffers of different fills coexist in a process)
        check_history(run, Fragments, hist, "B", fill=FILL if h % 3 else OTHER_FILLS[(h // 3) % len(OTHER_FILLS)])
        if h < 2:
            run.sample({"part": "B", "ops": hist})
        if run.counters["violations"] > 20:
            break

    # ---- Part C: real pack() calls under a shadowing Fragments ------------------------------
    try:
        from .. import packs
    except ImportError:
        packs = None
    if packs is not None:
        packs.monitored_pack_stream(run, rng, n_decls=(40 if run.tier == "quick" else 120))
        if shard == 0:
            packs.repo_tests_under_monitor(run)
