"""E1 renderer: declaration spec -> Python source -> real bisturi classes.

Classes are defined exactly as a user defines them: a source file in a scratch directory that
is imported, so source annotation and the __pkts__ cache run for real.  One module can hold
several *variants* of the same family (same declarations, different code-generation options);
variant v of declaration P3 is class `P3_v`.
"""
import importlib.util
import os
import sys

from . import common
from .spec import REGEXES

PYOPS = {"add": "+", "sub": "-", "mul": "*", "floordiv": "//", "truediv": "/", "mod": "%", "pow": "**",
         "and": "&", "or": "|", "xor": "^", "lshift": "<<", "rshift": ">>",
         "lt": "<", "le": "<=", "gt": ">", "ge": ">=", "eq": "==", "ne": "!="}

VARIANTS = {
    "g": {"generate_for_pack": False, "generate_for_unpack": False},
    "d": {},
}


def codegen_variant(bits):
    """bits: 4-tuple (pack, unpack, vectorize, annotate)"""
    p, u, v, a = bits
    return {"generate_for_pack": bool(p), "generate_for_unpack": bool(u), "vectorize": bool(v), "annotate": bool(a)}


def lit(v):
    return repr(v)


def expr_src(e, mode):
    """mode 'expr': deferred form with bare field names; mode 'lambda': python over pkt.<name>."""
    k = e[0]
    if k == "c":
        return lit(e[1])
    if k == "f":
        return e[1] if mode == "expr" else "pkt.%s" % e[1]
    if k == "u":
        a = expr_src(e[2], mode)
        if e[1] == "neg":
            return "(-%s)" % a
        if e[1] == "inv":
            return "(~%s)" % a
        if e[1] == "truth":
            return ("%s.__nonzero__()" % a) if mode == "expr" else "bool(%s)" % a
        if e[1] == "len":
            return ("%s.__len__()" % a) if mode == "expr" else "len(%s)" % a
        raise ValueError(e)
    if k == "b":
        return "(%s %s %s)" % (expr_src(e[2], mode), PYOPS[e[1]], expr_src(e[3], mode))
    if k == "i":
        return "%s[%s]" % (expr_src(e[1], mode), lit(e[2]) if not isinstance(e[2], list) else expr_src(e[2], mode))
    if k == "sl":
        return "%s[%s:%s]" % (expr_src(e[1], mode), "" if e[2] is None else e[2], "" if e[3] is None else e[3])
    if k == "ite":
        c, a, b = expr_src(e[1], mode), expr_src(e[2], mode), expr_src(e[3], mode)
        if mode == "expr":
            if e[4] == "list":
                return "%s.if_true_then_else([%s, %s])" % (c, a, b)
            return "%s.if_true_then_else(%s, %s)" % (c, a, b)
        return "(%s if %s else %s)" % (a, c, b)
    if k == "ch":
        key = expr_src(e[1], mode)
        form, options = e[2], e[3]
        if form == "dict":
            body = "{%s}" % ", ".join("%s: %s" % (lit(kk), expr_src(vv, mode)) for kk, vv in options)
            return ("%s.chooses(%s)" % (key, body)) if mode == "expr" else "%s[%s]" % (body, key)
        if form == "kw":
            if mode == "expr":
                return "%s.chooses(%s)" % (key, ", ".join("%s=%s" % (kk, expr_src(vv, mode)) for kk, vv in options))
            body = "{%s}" % ", ".join("%s: %s" % (lit(kk.encode("ascii")), expr_src(vv, mode)) for kk, vv in options)
            return "%s[%s]" % (body, key)
        vals = ", ".join(expr_src(vv, mode) for vv in options)
        if mode == "expr":
            return ("%s.chooses([%s])" % (key, vals)) if form == "list" else "%s.chooses(%s)" % (key, vals)
        return "(%s,)[%s]" % (vals, key) if len(options) == 1 else "(%s)[%s]" % (vals, key)
    if k == "rest":
        return "(len(raw) - offset)"
    raise ValueError("bad expr %r" % (e,))


def dyn_src(d, role=None):
    form = d["form"]
    e = d["e"]
    if form == "const":
        return lit(e[1])
    if form == "field":
        # a bare field: bisturi normalises it (value, __nonzero__ or __len__)
        inner = e
        while inner[0] == "u" and inner[1] in ("truth", "len"):
            inner = inner[2]
        assert inner[0] == "f", d
        return inner[1]
    if form == "expr":
        return expr_src(e, "expr")
    if form == "lambda":
        return "lambda pkt, **k: %s" % expr_src(e, "lambda")
    if form == "rawlambda":
        return "lambda pkt, raw, offset, **k: %s" % expr_src(e, "lambda")
    raise ValueError(form)


def until_src(u, fname):
    k = u["k"]
    if k == "len_ge":
        return "lambda pkt, **k: len(pkt.%s) >= %d" % (fname, u["n"])
    if k == "last_eq":
        return "lambda pkt, **k: pkt.%s[-1] == %r" % (fname, u["v"])
    if k == "last_field_eq":
        return "lambda pkt, **k: pkt.%s[-1].%s == %r" % (fname, u["field"], u["v"])
    if k == "at_end":
        return "lambda pkt, raw, offset, **k: offset >= len(raw)"
    if k == "peek_eq":
        return "lambda pkt, raw, offset, **k: raw[offset:offset+1] == %r" % bytes([u["v"]])
    raise ValueError(k)


def base_field_src(fam, f, variant):
    t = f["t"]
    if t == "int":
        args = [str(f["n"])]
        if f.get("signed"):
            args.append("signed=True")
        if f.get("endian") is not None:
            args.append("endianness=%r" % f["endian"])
        if "default" in f:
            args.append("default=%r" % f["default"])
        return "Int(%s)" % ", ".join(args)
    if t == "data":
        m = f["mode"]
        if m == "const":
            args = [str(f["size"])]
        elif m == "dyn":
            args = [dyn_src(f["size"])]
        elif m == "marker":
            args = ["until_marker=%r" % f["marker"]]
            if f.get("include"):
                args.append("include_delimiter=True")
            if f.get("noconsume"):
                args.append("consume_delimiter=False")
        elif m == "regex":
            args = ["until_marker=re.compile(%r)" % REGEXES[f["rx"]][0]]
            if f.get("include"):
                args.append("include_delimiter=True")
        elif m == "eos":
            args = ["until_marker=EOS"]
        else:
            raise ValueError(m)
        if "default" in f:
            args.append("default=%r" % f["default"])
        return "Data(%s)" % ", ".join(args)
    if t == "bits":
        args = [str(f["w"])]
        if "default" in f:
            args.append("default=%r" % f["default"])
        return "Bits(%s)" % ", ".join(args)
    if t == "ref":
        cls = "%s_%s" % (f["decl"], variant)
        if "inst_mut" in f:
            return "Ref(%s)" % f["_proto_var"]       # bound by class_src before the class statement
        if "inst" in f:
            inst = "%s(%s)" % (cls, ", ".join("%s=%r" % kv for kv in sorted(f["inst"].items())))
            return inst if f.get("implicit") else "Ref(%s)" % inst
        return cls if f.get("implicit") else "Ref(%s)" % cls
    if t == "sel":
        opts = []
        for k, o in f["options"].items():       # in the (random) order of the spec: not necessarily ascending
            if o["t"] == "ref":
                osrc = "%s_%s()" % (o["decl"], variant)
            else:
                osrc = base_field_src(fam, o, variant)
            opts.append("%s: %s" % (int(k), osrc))
        body = "{%s}" % ", ".join(opts)
        if f.get("_table_var"):
            body = f["_table_var"]                    # a table object shared with another selector (class_src)
        d = sel_default_src(fam, f, variant)
        if f["form"] == "fresh" and not f.get("_table_var"):
            # every call constructs a new field / packet object (short-lived objects, recycled ids)
            thunks = "{%s}" % ", ".join("%s: (lambda: %s)" % tuple(o.split(": ", 1)) for o in opts)
            return "Ref(lambda pkt, **k: %s[pkt.%s](), default=%s)" % (thunks, f["key"], d)
        if f["form"] == "chooses":
            return "Ref(%s.chooses(%s), default=%s)" % (f["key"], body, d)
        return "Ref(lambda pkt, **k: %s[pkt.%s], default=%s)" % (body, f["key"], d)
    if t == "em":
        return "Em()"
    raise ValueError(t)


def sel_default_src(fam, f, variant):
    o = f["options"][f["default_key"]]
    if o["t"] == "ref":
        return "%s_%s()" % (o["decl"], variant)
    if o["t"] == "int":
        return "0"
    if o["t"] == "data":
        if o["mode"] == "const":
            return repr(b"\x00" * o["size"])
        return "b''"
    raise ValueError(o)


def move_src(m):
    a = dyn_src(m["arg"])
    if m["op"] == "shift":
        return ".shift(%s)" % a
    if m["op"] == "at":
        return ".at(%s)" % a if m.get("ref") is None else ".at(%s, %r)" % (a, m["ref"])
    return ".aligned(%s)" % a if m.get("ref") is None else ".aligned(%s, %r)" % (a, m["ref"])


def field_src(fam, f, variant):
    s = base_field_src(fam, f, variant)
    if "lost_move" in f:
        s += move_src(f["lost_move"])      # written on the wrapped field, before .when()/.repeated()
    if "rep" in f:
        r = f["rep"]
        args = []
        if "count" in r:
            args.append("count=%s" % dyn_src(r["count"]))
        else:
            args.append("until=%s" % until_src(r["until"], f["name"]))
        if "when" in r:
            args.append("when=%s" % dyn_src(r["when"]))
        if "aligned" in r:
            args.append("aligned=%d" % r["aligned"])
        if "default" in r:
            args.append("default=%r" % r["default"])
        s += ".repeated(%s)" % ", ".join(args)
    elif "opt" in f:
        o = f["opt"]
        args = [dyn_src(o["when"])]
        if "default" in o:
            args.append("default=%r" % o["default"])
        s += ".when(%s)" % ", ".join(args)
    if "move" in f:
        s += move_src(f["move"])
    if "describe" in f:
        dsc = f["describe"]
        if dsc["k"] == "autolength":
            s += ".describe(AutoLength(%r))" % dsc["of"]
        elif dsc["k"] == "alias":
            s += ".describe(LEN(%r))" % dsc["of"]      # LEN is bound in the module header (same field text, other descriptor)
        else:
            s += ".describe(Auto(%s))" % dsc["src"]
    return s


HEADER = """import re
from bisturi.packet import Packet
from bisturi.field import Int, Data, Bits, Ref, Em, EOS
from bisturi.descriptor import Auto, AutoLength

"""


ALIAS_HEADER = """
class PlainDescriptor:
    # a descriptor without any sync hook: the attribute simply is the real field
    def __init__(self, of):
        self.of = of

    def __get__(self, instance, owner):
        if instance is None:
            return self
        return getattr(instance, self.real_field_name)

    def __set__(self, instance, val):
        setattr(instance, self.real_field_name, val)

"""


def table_src(fam, f, variant):
    opts = []
    for k, o in f["options"].items():
        opts.append("%s: %s" % (int(k), ("%s_%s()" % (o["decl"], variant)) if o["t"] == "ref" else base_field_src(fam, o, variant)))
    return "{%s}" % ", ".join(opts)


def class_src(fam, decl, variant, options):
    pre, post = [], []
    tables = {}
    for f in decl["fields"]:
        f.pop("_proto_var", None)
        f.pop("_table_var", None)
        if f["t"] == "ref" and "inst_mut" in f:
            # prototype object kept by the user and changed after the class statement
            var = "_proto_%s_%s_%s" % (decl["name"], variant, f["name"])
            f["_proto_var"] = var
            pre.append("%s = %s_%s(%s)" % (var, f["decl"], variant, ", ".join("%s=%r" % kv for kv in sorted(f["inst"].items()))))
            for k, v in sorted(f["inst_mut"].items()):
                post.append("%s.%s = %r" % (var, k, v))
        if f["t"] == "sel" and "share" in f:
            var = "_table_%s_%s_%s" % (decl["name"], variant, f["share"])
            if var not in tables:
                tables[var] = True
                pre.append("%s = %s" % (var, table_src(fam, f, variant)))
            f["_table_var"] = var
    try:
        return _class_src(fam, decl, variant, options, pre, post)
    finally:
        for f in decl["fields"]:
            f.pop("_proto_var", None)
            f.pop("_table_var", None)


def _class_src(fam, decl, variant, options, pre, post):
    lines = list(pre) + ["class %s_%s(Packet):" % (decl["name"], variant)]
    conf = dict(decl["opts"])
    conf.update(options)
    if conf:
        lines.append("    __bisturi__ = %r" % (conf,))
    for f in decl["fields"]:
        lines.append("    %s = %s" % (f["name"], field_src(fam, f, variant)))
    if lines[-1].startswith("class "):
        lines.append("    pass")
    return "\n".join(lines + list(post)) + "\n"


def family_src(fam, variants, local=False):
    """variants: dict suffix -> codegen options dict.
    local=True defines the classes inside a function (as a factory or a test method would): such
    classes cannot be pickled, which sends bisturi's prototype cloning down its live-object path."""
    out = [HEADER]
    impls = set(f["describe"].get("impl") for d in fam["decls"].values() for f in d["fields"]
                if f.get("describe", {}).get("k") == "alias")
    if impls:
        out.append(ALIAS_HEADER + ("LEN = AutoLength\n" if impls == {"autolength"} else "LEN = PlainDescriptor\n"))
    body = []
    for v, options in variants.items():
        for name in fam["order"]:
            body.append(class_src(fam, fam["decls"][name], v, options))
            body.append("")
    text = "\n".join(body)
    if not local:
        out.append(text)
        return "\n".join(out)
    out.append("def _make_classes():")
    out.append("\n".join(("    " + line) if line else line for line in text.split("\n")))
    out.append("    return dict(locals())")
    out.append("")
    out.append("globals().update(_make_classes())")
    out.append("")
    return "\n".join(out)


_modcount = [0]


class Loaded:
    def __init__(self, fam, module, variants, path, src):
        self.fam = fam
        self.module = module
        self.variants = variants
        self.path = path
        self.src = src

    def cls(self, declname, variant):
        return getattr(self.module, "%s_%s" % (declname, variant))

    def root(self, variant):
        return self.cls(self.fam["root"], variant)

    def classes(self, variant):
        return {n: self.cls(n, variant) for n in self.fam["order"]}

    def generated_source(self, declname, variant):
        p = os.path.join(os.path.dirname(self.path), "__pkts__",
                         "%s_%s_%s.py" % (os.path.splitext(os.path.basename(self.path))[0], declname, variant))
        try:
            with open(p) as f:
                return f.read()
        except OSError:
            return None


def load_source(src, directory, modname=None):
    if modname is None:
        _modcount[0] += 1
        modname = "bvfm_%d_%d" % (os.getpid(), _modcount[0])
    path = os.path.join(directory, modname + ".py")
    with open(path, "w") as f:
        f.write(src)
    spec = importlib.util.spec_from_file_location(modname, path)
    module = importlib.util.module_from_spec(spec)
    sys.modules[modname] = module   # inspect.getsourcelines needs the module to be registered
    try:
        spec.loader.exec_module(module)
    except BaseException:
        sys.modules.pop(modname, None)
        raise
    return module, path


def load_family(fam, variants, directory, local=False):
    """Define the family's classes (all variants) from rendered source. Raises whatever class
    definition raises."""
    common.import_bisturi()
    src = family_src(fam, variants, local=local)
    module, path = load_source(src, directory)
    return Loaded(fam, module, variants, path, src)


def unload(loaded):
    sys.modules.pop(loaded.module.__name__, None)
    # forget generated cache modules too
    prefix = loaded.module.__name__ + "_"
    for k in [k for k in sys.modules if k.startswith(prefix)]:
        sys.modules.pop(k, None)
