"""E2: executable reference model of the declaration language, written from the property
statements and the reference documentation, independent of the library's code.

  parse(fam, buf, offset)  -> ParseOk(values, end, trace) | raises ParseFail | raises Undefined
  encode(fam, values)      -> EncodeOk(bytes, trace)      | raises EncodeFail | raises Undefined
  defaults(fam, declname)  -> PV

`buf` is either a ConcreteBuf (the oracle) or a GenBuf (lazy buffer: bytes are materialised at
first touch, biased so that sizes/counts stay small and delimiters are found).  Parsing a GenBuf
*is* the valid-input generator; its result is never used as an oracle: the bytes it produced are
parsed again with a ConcreteBuf.

`Undefined` is raised where no property fixes the behaviour (negative cursor, negative
alignment, read-to-end beyond the end, ...): such cases are skipped and counted by the checks.
"""
import operator
import re
import sys

from .spec import REGEXES, int_range


class Undefined(Exception):
    pass


MAX_EXTENT = 1 << 20


class ParseFail(Exception):
    """path: innermost first [(field_name, class_name, offset_where_the_field_begins), ...]"""

    def __init__(self, path, why):
        Exception.__init__(self, why)
        self.path = path
        self.why = why


class EncodeFail(Exception):
    def __init__(self, path, why, kind="value"):
        Exception.__init__(self, why)
        self.path = path
        self.why = why
        self.kind = kind      # value | collision | eval
        self.elem_start = None   # cursor where the failing element of a repeated field begins


class PV:
    """Value of a packet: declaration name + ordered mapping field name -> value."""
    __slots__ = ("decl", "vals")

    def __init__(self, decl, vals=None):
        self.decl = decl
        self.vals = vals if vals is not None else {}

    def __getattr__(self, name):
        try:
            return self.vals[name]
        except KeyError:
            raise AttributeError(name)

    def __eq__(self, other):
        return isinstance(other, PV) and other.decl == self.decl and self.vals == other.vals

    def __ne__(self, other):
        return not self.__eq__(other)

    def __repr__(self):
        return "PV(%s, %r)" % (self.decl, self.vals)

    def to_json(self):
        return {"__pkt__": self.decl, "v": {k: val_json(v) for k, v in self.vals.items()}}


def val_json(v):
    if isinstance(v, PV):
        return v.to_json()
    if isinstance(v, bytes):
        return {"__bytes__": v.hex()}
    if isinstance(v, list):
        return [val_json(x) for x in v]
    return v


def val_from_json(o):
    """Inverse of val_json (also accepts already decoded bytes)."""
    if isinstance(o, dict):
        if "__pkt__" in o:
            return PV(o["__pkt__"], {k: val_from_json(v) for k, v in o["v"].items()})
        if set(o) == {"__bytes__"}:
            return bytes.fromhex(o["__bytes__"])
    if isinstance(o, list):
        return [val_from_json(x) for x in o]
    return o


def strip_described(fam, v):
    """Copy of a value tree without the described (AutoLength) leaves, at every depth: a packet built from
    it leaves those fields automatic."""
    if isinstance(v, list):
        return [strip_described(fam, x) for x in v]
    if not isinstance(v, PV):
        return v
    decl = fam["decls"][v.decl]
    out = PV(v.decl)
    for f in decl["fields"]:
        if f["t"] == "em" or "describe" in f or f["name"] not in v.vals:
            continue
        out.vals[f["name"]] = strip_described(fam, v.vals[f["name"]])
    return out


def copy_val(v):
    if isinstance(v, PV):
        return PV(v.decl, {k: copy_val(x) for k, x in v.vals.items()})
    if isinstance(v, list):
        return [copy_val(x) for x in v]
    return v


# ------------------------------------------------------------------------------ buffers
class ConcreteBuf:
    is_gen = False

    def __init__(self, raw):
        self.raw = raw

    def length(self):
        return len(self.raw)

    def read(self, a, b):
        if a < 0 or b < a:
            raise Undefined("negative cursor/size read")
        return self.raw[a:b]

    def tail(self, a):
        if a < 0:
            raise Undefined("negative cursor")
        return self.raw[a:]

    def hint(self, a, data):
        pass


ALPHABET = [0] * 10 + [1, 2, 3, 4] * 3 + [0x61, 0x62, 0x78, 0x61, 0x62] * 2 + [0x3B, 0x2C, 0x0A, 0x0D, 0x3A] * 2 + [0xFF, 0xFE, 0x80, 0x7F]


class GenBuf:
    """Lazy buffer. Unknown bytes are chosen at first touch; `hint` proposes bytes for still
    unknown positions.  The total length stays open until something needs it."""
    is_gen = True

    def __init__(self, rng, maxlen=200, tail_extra=(0, 0, 0, 1, 2, 3)):
        self.rng = rng
        self.b = {}
        self.fixed = None
        self.maxlen = maxlen
        self.tail_extra = tail_extra
        self.high = 0       # highest cursor position reported by the parser

    def _rand(self):
        r = self.rng.random()
        if r < 0.8:
            return self.rng.choice(ALPHABET)
        return self.rng.randrange(256)

    def top(self):
        return (max(self.b) + 1) if self.b else 0

    def fix(self, n):
        """Decide the total length (never beyond maxlen: cursors can be astronomically large)."""
        self.fixed = max(self.top(), min(max(n, 0), self.maxlen))

    def length(self):
        if self.fixed is None:
            self.fix(max(self.top(), min(self.high, self.maxlen)) + self.rng.choice(self.tail_extra))
        return self.fixed

    def read(self, a, b):
        if a < 0 or b < a:
            raise Undefined("negative cursor/size read")
        if self.fixed is None and b > self.maxlen:
            self.fix(self.high)
        if self.fixed is not None:
            b = min(b, self.fixed)
        out = bytearray()
        for p in range(a, b):
            v = self.b.get(p)
            if v is None:
                v = self.b[p] = self._rand()
            out.append(v)
        return bytes(out)

    def tail(self, a):
        if a < 0:
            raise Undefined("negative cursor")
        return self.read(a, max(a, self.length()))

    def hint(self, a, data):
        if a < 0:
            return
        for i, v in enumerate(data):
            p = a + i
            if p >= self.maxlen or (self.fixed is not None and p >= self.fixed):
                break
            if p not in self.b:
                self.b[p] = v

    def materialise(self, hole_rng):
        """Concrete bytes: never-touched holes are filled with random bytes that are not '.'"""
        n = self.length()
        out = bytearray()
        for p in range(n):
            v = self.b.get(p)
            if v is None:
                v = hole_rng.choice(b"#@!~^&%$HOLE\x00\xff\x01")
            out.append(v)
        return bytes(out)


# ------------------------------------------------------------------------------ expressions
OPS = {"add": operator.add, "sub": operator.sub, "mul": operator.mul, "floordiv": operator.floordiv,
       "truediv": operator.truediv, "mod": operator.mod, "pow": operator.pow,
       "and": operator.and_, "or": operator.or_, "xor": operator.xor, "lshift": operator.lshift,
       "rshift": operator.rshift, "lt": operator.lt, "le": operator.le, "gt": operator.gt,
       "ge": operator.ge, "eq": operator.eq, "ne": operator.ne}


def lib_value(v):
    """Model value -> the Python value user code sees (PV objects behave like packets for
    attribute access and equality, which is all the generated expressions use)."""
    return v


def eval_expr(e, vals, env=None):
    k = e[0]
    if k == "c":
        return e[1]
    if k == "f":
        if e[1] not in vals:
            raise AttributeError(e[1])
        return vals[e[1]]
    if k == "u":
        a = eval_expr(e[2], vals, env)
        if e[1] == "neg":
            return -a
        if e[1] == "inv":
            return ~a
        if e[1] == "truth":
            return operator.truth(a)
        if e[1] == "len":
            return len(a)
        raise ValueError(e)
    if k == "b":
        l = eval_expr(e[2], vals, env)
        r = eval_expr(e[3], vals, env)
        return OPS[e[1]](l, r)
    if k == "i":
        base = eval_expr(e[1], vals, env)
        idx = e[2] if not isinstance(e[2], list) else eval_expr(e[2], vals, env)
        return base[idx]
    if k == "sl":
        return eval_expr(e[1], vals, env)[e[2]:e[3]]
    if k == "ite":
        c = eval_expr(e[1], vals, env)
        a = eval_expr(e[2], vals, env)
        b = eval_expr(e[3], vals, env)
        return a if bool(c) else b
    if k == "ch":
        key = eval_expr(e[1], vals, env)
        form, options = e[2], e[3]
        if form in ("dict", "kw"):
            d = {}
            for kk, vv in options:
                d[kk.encode("ascii") if form == "kw" else kk] = eval_expr(vv, vals, env)
            return d[key]
        return tuple(eval_expr(vv, vals, env) for vv in options)[key]
    if k == "rest":
        return env["len"] - env["offset"]
    raise ValueError("bad expr %r" % (e,))


def eval_dyn(d, vals, env=None):
    return eval_expr(d["e"], vals, env)


# ------------------------------------------------------------------------------ helpers
def is_big(endian, conf):
    e = endian if endian is not None else conf.get("endianness", "big")
    return e in ("big", "network") or (e == "local" and sys.byteorder == "big")


def decode_int(data, signed, big):
    return int.from_bytes(data, "big" if big else "little", signed=signed)


def encode_int(v, n, signed, big):
    return v.to_bytes(n, "big" if big else "little", signed=signed)


def effective_move(f, conf):
    m = f.get("move")
    if m is None and "align" in conf:
        return {"op": "aligned", "arg": {"form": "const", "e": ["c", conf["align"]]}, "ref": "begins"}
    return m


def move_ref(m):
    if m["op"] == "shift":
        return "current-offset"
    r = m.get("ref")
    if r is None:
        return "begins" if m["op"] == "aligned" else "innermost-pkt"
    return r


def apply_move(m, vals, cursor, ipp):
    """New cursor. Raises ValueError-like python exceptions for evaluation errors (-> failure of
    the pseudo field), Undefined where unspecified."""
    v = eval_dyn(m["arg"], vals)
    if isinstance(v, bool) or not isinstance(v, int):
        if isinstance(v, bool):
            v = int(v)
        else:
            raise TypeError("position is not an integer")
    ref = move_ref(m)
    if m["op"] == "aligned":
        if v == 0:
            raise ZeroDivisionError("alignment of zero")
        if v < 0:
            raise Undefined("negative alignment")
        start = 0 if ref == "begins" else (cursor if ref == "current-offset" else ipp)
        return cursor + (v - ((cursor - start) % v)) % v
    if ref == "begins":
        new = v
    elif ref == "current-offset":
        new = cursor + v
    else:
        new = ipp + v
    if new < 0:
        raise Undefined("negative cursor")
    if ref != "begins" and new < ipp:
        # a relative move that leaves the packet through its front (bytes before the packet's own start, possibly before the
        # start offset of the whole parse): what parse-then-serialize means there is fixed by no property
        raise Undefined("cursor before the start of the packet")
    return new


class Trace:
    """What the model saw: consumed spans, per-field positions, extent."""

    def __init__(self):
        self.spans = []      # (path, a, b) value-bearing byte ranges (b > a)
        self.fields = []     # dict(path, cls, name, t, before, start, end)
        self.moves = []      # dict(path, cls, name, before, after, arg, ref, is_alignment, ipp)
        self.extent = 0
        self.until_calls = []
        self.elem_counts = {}

    def touch(self, cursor):
        if cursor > self.extent:
            self.extent = cursor

    def consumed(self):
        s = set()
        for _, a, b in self.spans:
            s.update(range(a, b))
        return s

    def overlapping(self):
        seen = set()
        for _, a, b in self.spans:
            for p in range(a, b):
                if p in seen:
                    return True
                seen.add(p)
        return False


# ------------------------------------------------------------------------------ generation hints
def choose_int_for(f, rng, n, signed):
    lo, hi = int_range(n, signed)
    h = f.get("hint") or {}
    kinds = sorted(h)
    if kinds:
        k = rng.choice(kinds)
        if k == "small":
            v = rng.choice([0, 1, 1, 2, 2, 3, 3, 4, 5])
        elif k == "keys":
            v = rng.choice(h[k])
        elif k == "pos":
            v = rng.choice(h[k])
        elif k == "align":
            v = rng.choice([1, 2, 2, 4, 4, 3, 0])
        elif k == "term":
            v = h[k] if rng.random() < 0.4 else rng.choice([1, 2, 3])
        else:
            v = rng.choice([0, 1, 2])
        return max(lo, min(hi, v))
    r = rng.random()
    if r < 0.35:
        return rng.choice([0, 1, 2, 3])
    if r < 0.6:
        return rng.choice([lo, hi, hi - 1, lo + 1, hi // 2])
    return rng.randint(lo, hi)


DELIM_SAMPLES = {
    "crlf": [b"\n", b"\r\n"], "nuls": [b"\x00", b"\x00\x00"], "semi": [b";"], "sep": [b";", b","],
    "nl_or_end": [b"\n", b""], "ab_or_a": [b"ab", b"a"], "xx": [b"xx"],
    "noesc_quote": [b'"'], "lb_semi": [b";"], "caret_or_comma": [b",", b";"],
}
BODY_ALPHABET = b"cdefgh\x01\x02\x7fXYZ"   # never part of any marker/regex delimiter


# ------------------------------------------------------------------------------ parse
class Parser:
    def __init__(self, fam, buf, rng=None):
        self.fam = fam
        self.buf = buf
        self.rng = rng
        self.tr = Trace()
        self.budget = 4000   # guards runaway repetition

    # -- whole packet
    def parse_decl(self, declname, offset, path):
        decl = self.fam["decls"][declname]
        conf = decl["opts"]
        pv = PV(declname)
        vals = pv.vals
        cursor = offset
        ipp = offset
        fields = decl["fields"]
        i = 0
        tr = self.tr
        self.touch(cursor)
        while i < len(fields):
            f = fields[i]
            fpath = path + (f["name"],)
            before = cursor
            m = effective_move(f, conf)
            if m is not None:
                try:
                    new = apply_move(m, vals, cursor, ipp)
                except Undefined:
                    raise
                except Exception as e:
                    raise ParseFail([("_shift_to_%s" % f["name"], declname, cursor)], "move: %s" % e)
                tr.moves.append({"path": fpath, "cls": declname, "name": f["name"], "before": cursor, "after": new,
                                 "ref": move_ref(m), "is_alignment": m["op"] == "aligned", "ipp": ipp, "op": m["op"]})
                cursor = new
                self.touch(cursor)
            start = cursor
            if f["t"] == "bits":
                # the whole run is decoded from one big-endian integer at the first member
                j = i
                run = []
                while j < len(fields) and fields[j]["t"] == "bits" and (j == i or effective_move(fields[j], conf) is None):
                    run.append(fields[j])
                    j += 1
                total = sum(b["w"] for b in run)
                if total % 8:
                    raise Undefined("bits run not multiple of 8")
                nbytes = total // 8
                if self.buf.is_gen:
                    acc = 0
                    for b in run:
                        acc = (acc << b["w"]) | (choose_int_for(b, self.rng, 8, False) & ((1 << b["w"]) - 1))
                    self.buf.hint(cursor, acc.to_bytes(nbytes, "big"))
                data = self.buf.read(cursor, cursor + nbytes)
                if len(data) != nbytes:
                    raise ParseFail([(f["name"], declname, start)], "short read in bits run")
                acc = int.from_bytes(data, "big")
                shift = total
                for b in run:
                    shift -= b["w"]
                    vals[b["name"]] = (acc >> shift) & ((1 << b["w"]) - 1)
                if nbytes:
                    tr.spans.append((fpath, cursor, cursor + nbytes))
                cursor += nbytes
                for idx, b in enumerate(run):
                    tr.fields.append({"path": path + (b["name"],), "cls": declname, "name": b["name"], "t": "bits",
                                      "before": before if idx == 0 else cursor, "start": start if idx == 0 else cursor, "end": cursor})
                self.touch(cursor)
                i = j
                continue
            value, cursor = self.parse_field(f, conf, vals, cursor, ipp, fpath, declname)
            if f["t"] != "em":
                vals[f["name"]] = value
            tr.fields.append({"path": fpath, "cls": declname, "name": f["name"], "t": f["t"], "before": before,
                              "start": start, "end": cursor})
            self.touch(cursor)
            i += 1
        return pv, cursor

    def touch(self, cursor):
        self.tr.touch(cursor)
        if self.buf.is_gen and cursor > self.buf.high:
            self.buf.high = cursor

    def fail_here(self, f, declname, start, why):
        return ParseFail([(f["name"], declname, start)], why)

    # -- one declared field (with its rep/opt wrapper)
    def parse_field(self, f, conf, vals, cursor, ipp, fpath, declname):
        start = cursor
        buf = self.buf
        env = None
        try:
            if "rep" in f:
                return self.parse_rep(f, conf, vals, cursor, ipp, fpath, declname)
            if "opt" in f:
                cond = eval_dyn(f["opt"]["when"], vals)
                if cond:
                    return self.parse_base(f, conf, vals, cursor, fpath, declname)
                return None, cursor
            return self.parse_base(f, conf, vals, cursor, fpath, declname)
        except (ParseFail, Undefined):
            raise
        except NestedFail as nf:
            e = nf.inner
            e.path.append((f["name"], declname, start))
            raise e
        except Exception as e:
            raise ParseFail([(f["name"], declname, start)], "%s: %s" % (type(e).__name__, e))

    def parse_rep(self, f, conf, vals, cursor, ipp, fpath, declname):
        r = f["rep"]
        name = f["name"]
        seq = []
        vals[name] = seq          # visible to when/until callbacks while being built
        buf = self.buf
        aligned_to = r.get("aligned", conf.get("align", 1))

        def env():
            return {"len": buf.length(), "offset": cursor}

        if "count" in r:
            count = eval_dyn(r["count"], vals)
            if not isinstance(count, int):
                raise TypeError("count is not an integer")
        else:
            count = 1
        if "when" in r:
            if count <= 0 or not eval_dyn(r["when"], vals):
                return seq, cursor
        n_target = max(count, 0)

        def one(cursor):
            self.budget -= 1
            if self.budget < 0 or len(seq) > 64:
                raise Undefined("runaway repetition")
            cursor += (aligned_to - (cursor % aligned_to)) % aligned_to
            self.touch(cursor)
            v, cursor = self.parse_base(f, conf, vals, cursor, fpath + (len(seq),), declname)
            seq.append(v)
            self.touch(cursor)
            return cursor

        for _ in range(n_target):
            cursor = one(cursor)
        if "until" in r:
            u = r["until"]
            while True:
                stop = self.eval_until(u, name, vals, cursor)
                self.tr.until_calls.append((fpath, len(seq), bool(stop)))
                if stop:
                    break
                cursor = one(cursor)
        self.tr.elem_counts[fpath] = len(seq)
        return seq, cursor

    def eval_until(self, u, name, vals, cursor):
        k = u["k"]
        seq = vals[name]
        if k == "len_ge":
            return len(seq) >= u["n"]
        if k == "last_eq":
            return seq[-1] == u["v"]
        if k == "last_field_eq":
            return getattr(seq[-1], u["field"]) == u["v"]
        if k == "at_end":
            buf = self.buf
            if buf.is_gen and buf.fixed is None:
                # decide whether the input ends here
                if self.rng.random() < 0.45 or len(seq) >= 4:
                    buf.fix(cursor)
            return cursor >= buf.length()
        if k == "peek_eq":
            buf = self.buf
            if buf.is_gen:
                if self.rng.random() < 0.45 or len(seq) >= 4:
                    buf.hint(cursor, bytes([u["v"]]))
                else:
                    buf.hint(cursor, bytes([self.rng.choice([1, 2, 0x61])]))
            return buf.read(cursor, cursor + 1) == bytes([u["v"]])
        raise ValueError(k)

    # -- the bare field kinds
    def parse_base(self, f, conf, vals, cursor, fpath, declname):
        t = f["t"]
        buf = self.buf
        tr = self.tr
        if t == "int":
            n = f["n"]
            big = is_big(f.get("endian"), {} if f.get("sel_option") else conf)
            if buf.is_gen:
                v = choose_int_for(f, self.rng, n, f.get("signed", False))
                buf.hint(cursor, encode_int(v, n, f.get("signed", False), big))
            data = buf.read(cursor, cursor + n)
            if len(data) != n:
                raise ShortRead("need %d bytes for Int, have %d" % (n, len(data)))
            tr.spans.append((fpath, cursor, cursor + n))
            return decode_int(data, f.get("signed", False), big), cursor + n
        if t == "data":
            return self.parse_data(f, conf, vals, cursor, fpath)
        if t == "ref":
            try:
                pv, end = self.parse_decl(f["decl"], cursor, fpath)
            except ParseFail as e:
                raise NestedFail(e)
            return pv, end
        if t == "sel":
            key = vals[f["key"]]
            o = f["options"].get(str(key)) if isinstance(key, int) and not isinstance(key, bool) else None
            if o is None and isinstance(key, bool):
                o = f["options"].get(str(int(key)))
            if o is None:
                raise KeyError(key)
            if o["t"] == "ref":
                try:
                    pv, end = self.parse_decl(o["decl"], cursor, fpath)
                except ParseFail as e:
                    raise NestedFail(e)
                return pv, end
            o2 = dict(o)
            o2["name"] = f["name"]
            return self.parse_base(o2, {}, vals, cursor, fpath, declname)
        if t == "em":
            return None, cursor
        raise ValueError(t)

    def parse_data(self, f, conf, vals, cursor, fpath):
        buf = self.buf
        tr = self.tr
        mode = f["mode"]
        if mode in ("const", "dyn"):
            if mode == "const":
                n = f["size"]
            else:
                env = None
                if f["size"]["form"] == "rawlambda":
                    env = {"len": buf.length(), "offset": cursor}
                n = eval_dyn(f["size"], vals, env)
                if isinstance(n, bool):
                    n = int(n)
                if not isinstance(n, int):
                    raise TypeError("size is not an integer")
            if n < 0:
                raise ShortRead("negative size")
            data = buf.read(cursor, cursor + n)
            if len(data) != n:
                raise ShortRead("need %d bytes for Data, have %d" % (n, len(data)))
            if n:
                tr.spans.append((fpath, cursor, cursor + n))
            return data, cursor + n
        W = conf.get("search_buffer_length")
        include = bool(f.get("include"))
        if mode == "marker":
            marker = f["marker"]
            if buf.is_gen:
                L = self.rng.choice([0, 1, 2, 3, 5])
                if W:
                    L = min(L, max(0, W - len(marker)))
                # the body is free of the *marker*, not of its individual bytes (a lone '\r' inside a '\r\n' field)
                alphabet = BODY_ALPHABET + (marker * 3 if len(marker) > 1 else b"")
                for _ in range(6):
                    body = bytes(self.rng.choice(alphabet) for _ in range(L))
                    if (body + marker).find(marker) == len(body):
                        break
                else:
                    body = bytes(self.rng.choice(BODY_ALPHABET) for _ in range(L))
                buf.hint(cursor, body + marker)
            window = buf.read(cursor, cursor + W) if W else buf.tail(cursor)
            pos = window.find(marker)
            if pos < 0:
                raise ShortRead("marker not found")
            if include:
                end = cursor + pos + len(marker)
                value = buf.read(cursor, end)
                nxt = end
            else:
                value = buf.read(cursor, cursor + pos)
                nxt = cursor + pos + len(marker)
                if f.get("noconsume"):
                    nxt = cursor + pos          # the delimiter is only looked at: it belongs to whatever comes next
            if nxt > cursor:
                tr.spans.append((fpath, cursor, nxt))
            return value, nxt
        if mode == "eos":
            L = buf.length()
            if cursor > L:
                raise Undefined("read-to-end beyond the end")
            value = buf.read(cursor, L)
            if L > cursor:
                tr.spans.append((fpath, cursor, L))
            return value, L
        if mode == "regex":
            pattern = REGEXES[f["rx"]][0]
            if buf.is_gen:
                L = self.rng.choice([0, 1, 2, 3, 5])
                d = self.rng.choice(DELIM_SAMPLES[f["rx"]])
                if W:
                    L = min(L, max(0, W - len(d)))
                body = bytes(self.rng.choice(BODY_ALPHABET) for _ in range(L))
                buf.hint(cursor, body + d)
                if d == b"" and buf.fixed is None:
                    buf.fix(cursor + L)
            window = buf.read(cursor, cursor + W) if W else buf.tail(cursor)
            mo = re.compile(pattern).search(window)
            if not mo:
                raise ShortRead("regex delimiter not found")
            if include:
                end = cursor + mo.end()
                value = buf.read(cursor, end)
                nxt = end
            else:
                value = buf.read(cursor, cursor + mo.start())
                nxt = cursor + mo.end()
            if nxt > cursor:
                tr.spans.append((fpath, cursor, nxt))
            return value, nxt
        raise ValueError(mode)


class ShortRead(Exception):
    pass


class NestedFail(Exception):
    def __init__(self, inner):
        Exception.__init__(self, "nested")
        self.inner = inner


class ParseOk:
    def __init__(self, value, end, trace):
        self.value = value
        self.end = end
        self.trace = trace


def parse(fam, buf, offset=0, rng=None):
    """Parse the family's root declaration. Returns ParseOk or raises ParseFail/Undefined."""
    p = Parser(fam, buf, rng)
    pv, end = p.parse_decl(fam["root"], offset, ())
    if p.tr.extent > MAX_EXTENT:
        raise Undefined("cursor beyond any reasonable buffer (serializing would hit a resource limit)")
    return ParseOk(pv, end, p.tr)


def generate_input(fam, rng, offset=0, maxlen=200):
    """Lazy parse -> concrete bytes. Returns (raw, outcome) with outcome in ok/fail/undefined;
    the outcome is only a label for statistics, the oracle is a concrete re-parse."""
    buf = GenBuf(rng, maxlen=maxlen)
    if offset:
        buf.read(0, offset)     # random prefix
    outcome = "ok"
    try:
        parse(fam, buf, offset, rng)
    except ParseFail:
        outcome = "fail"
    except Undefined:
        outcome = "undefined"
    except RecursionError:
        outcome = "undefined"
    return buf.materialise(rng), outcome


# ------------------------------------------------------------------------------ encode
class ShadowFragments:
    def __init__(self):
        self.bytes = {}
        self.extent = 0
        self.cursor = 0
        self.inserts = []     # (position, data, path)

    def insert(self, p, data, path=None):
        if p < 0:
            raise Undefined("negative write position")
        if p + len(data) > MAX_EXTENT:
            raise Undefined("position beyond any reasonable buffer (resource limit, not a property)")
        if data:
            for q in range(p, p + len(data)):
                if q in self.bytes:
                    raise Collision(p, len(data))
            for i, b in enumerate(data):
                self.bytes[p + i] = b
        self.extent = max(self.extent, p + len(data))
        self.cursor = p + len(data)
        self.inserts.append((p, bytes(data), path))

    def append(self, data, path=None):
        self.insert(self.cursor, data, path)

    def render(self):
        return bytes(self.bytes.get(q, 0x2E) for q in range(self.extent))


class Collision(Exception):
    pass


class Encoder:
    def __init__(self, fam):
        self.fam = fam
        self.fr = ShadowFragments()
        self.tr = Trace()
        self.elem_cursor = None

    def encode_decl(self, pv, path):
        if not isinstance(pv, PV):
            raise TypeError("not a packet value")
        declname = pv.decl
        decl = self.fam["decls"][declname]
        conf = decl["opts"]
        vals = pv.vals
        fr = self.fr
        ipp = fr.cursor
        fields = decl["fields"]
        i = 0
        while i < len(fields):
            f = fields[i]
            fpath = path + (f["name"],)
            m = effective_move(f, conf)
            if m is not None:
                before = fr.cursor
                try:
                    new = apply_move(m, vals, fr.cursor, ipp)
                except Undefined:
                    raise
                except Exception as e:
                    raise EncodeFail([("_shift_to_%s" % f["name"], declname, fr.cursor)], "move: %s" % e, "eval")
                self.tr.moves.append({"path": fpath, "cls": declname, "name": f["name"], "before": before, "after": new,
                                      "ref": move_ref(m), "is_alignment": m["op"] == "aligned", "ipp": ipp, "op": m["op"]})
                fr.cursor = new
            start = fr.cursor
            try:
                if f["t"] == "bits":
                    j = i
                    run = []
                    while j < len(fields) and fields[j]["t"] == "bits" and (j == i or effective_move(fields[j], conf) is None):
                        run.append(fields[j])
                        j += 1
                    total = sum(b["w"] for b in run)
                    acc = 0
                    for b in run:
                        v = vals[b["name"]]
                        if not isinstance(v, int):
                            raise BitsTypeError(b["name"])
                        acc = (acc << b["w"]) | (v & ((1 << b["w"]) - 1))
                    fr.insert(fr.cursor, acc.to_bytes(total // 8, "big"), fpath)
                    for idx, b in enumerate(run):
                        self.tr.fields.append({"path": path + (b["name"],), "cls": declname, "name": b["name"], "t": "bits",
                                               "start": start if idx == 0 else fr.cursor, "end": fr.cursor})
                    i = j
                    continue
                self.encode_field(f, conf, vals, fpath, declname)
            except (EncodeFail, Undefined):
                raise
            except NestedEncodeFail as ne:
                e = ne.inner
                e.path.append((f["name"], declname, start))
                raise e
            except Collision as c:
                ef = EncodeFail([(f["name"], declname, start)], "collision", "collision")
                ef.elem_start = self.elem_cursor if "rep" in f else None
                raise ef
            except BitsTypeError as b:
                raise EncodeFail([(b.args[0], declname, start)], "bits value is not an integer", "value")
            except Exception as e:
                ef = EncodeFail([(f["name"], declname, start)], "%s: %s" % (type(e).__name__, e), "value")
                ef.elem_start = self.elem_cursor if "rep" in f else None
                raise ef
            self.tr.fields.append({"path": fpath, "cls": declname, "name": f["name"], "t": f["t"], "start": start,
                                   "end": fr.cursor})
            i += 1

    def encode_field(self, f, conf, vals, fpath, declname):
        fr = self.fr
        if f["t"] == "em":
            fr.append(b"", fpath)
            return
        v = vals[f["name"]]
        if "rep" in f:
            aligned_to = f["rep"].get("aligned", conf.get("align", 1))
            for idx, x in enumerate(v):
                fr.cursor += (aligned_to - (fr.cursor % aligned_to)) % aligned_to
                self.elem_cursor = fr.cursor
                self.encode_base(f, conf, vals, x, fpath + (idx,), declname)
            return
        if "opt" in f:
            if v is not None:
                self.encode_base(f, conf, vals, v, fpath, declname)
            return
        self.encode_base(f, conf, vals, v, fpath, declname)

    def encode_base(self, f, conf, vals, v, fpath, declname):
        fr = self.fr
        t = f["t"]
        if t == "int":
            if not isinstance(v, int):
                raise TypeError("not an integer")
            lo, hi = int_range(f["n"], f.get("signed", False))
            if not (lo <= v <= hi):
                raise OverflowError("integer out of range")
            fr.append(encode_int(int(v), f["n"], f.get("signed", False), is_big(f.get("endian"), {} if f.get("sel_option") else conf)), fpath)
            return
        if t == "data":
            if not isinstance(v, bytes):
                raise TypeError("not bytes")
            d = b""
            if f.get("noconsume"):
                raise Undefined("consume_delimiter=False: what such a field serializes to is not fixed by any property")
            if f["mode"] == "marker" and not f.get("include"):
                d = f["marker"]
            elif f["mode"] == "regex" and not f.get("include"):
                pat, single = REGEXES[f["rx"]]
                if not single:
                    raise Undefined("delimiter of a regex not kept in the value is not determined by the value")
                d = DELIM_SAMPLES[f["rx"]][0]
            fr.append(v + d, fpath)
            return
        if t == "ref":
            try:
                self.encode_decl(v, fpath)
            except EncodeFail as e:
                raise NestedEncodeFail(e)
            return
        if t == "sel":
            if isinstance(v, PV):
                try:
                    self.encode_decl(v, fpath)
                except EncodeFail as e:
                    raise NestedEncodeFail(e)
                return
            key = vals[f["key"]]
            o = f["options"].get(str(int(key))) if isinstance(key, int) else None
            if o is None:
                raise KeyError(key)
            if o["t"] == "ref":
                raise NotImplementedError("selector gives a packet but the value is not a packet")
            self.encode_base(o, {}, vals, v, fpath, declname)
            return
        raise ValueError(t)


class BitsTypeError(Exception):
    pass


class NestedEncodeFail(Exception):
    def __init__(self, inner):
        Exception.__init__(self, "nested")
        self.inner = inner


class EncodeOk:
    def __init__(self, data, fr, trace):
        self.data = data
        self.fragments = fr
        self.trace = trace


def encode(fam, pv):
    e = Encoder(fam)
    e.encode_decl(pv, ())
    return EncodeOk(e.fr.render(), e.fr, e.tr)


# ------------------------------------------------------------------------------ defaults
def default_of_base(fam, f, ):
    t = f["t"]
    if t == "int":
        return f.get("default", 0)
    if t == "bits":
        return f.get("default", 0)
    if t == "data":
        d = f.get("default", b"")
        if not d and f["mode"] == "const":
            return b"\x00" * f["size"]
        return d
    if t == "ref":
        pv = defaults(fam, f["decl"])
        for k, v in (f.get("inst") or {}).items():
            pv.vals[k] = v
        return pv
    if t == "sel":
        o = f["options"][f["default_key"]]
        if o["t"] == "ref":
            return defaults(fam, o["decl"])
        if o["t"] == "int":
            return 0
        if o["mode"] == "const":
            return b"\x00" * o["size"]
        return b""
    raise ValueError(t)


def defaults(fam, declname, overrides=None):
    """Default value tree of a declaration, with keyword overrides of top-level fields.
    A described (AutoLength) field reads as the length of its tracked field unless overridden."""
    decl = fam["decls"][declname]
    pv = PV(declname)
    overrides = overrides or {}
    for f in decl["fields"]:
        if f["t"] == "em":
            continue
        if f["name"] in overrides:
            pv.vals[f["name"]] = overrides[f["name"]]
        elif "rep" in f:
            pv.vals[f["name"]] = copy_val(f["rep"].get("default", []))
        elif "opt" in f:
            pv.vals[f["name"]] = copy_val(f["opt"].get("default", None))
        else:
            pv.vals[f["name"]] = default_of_base(fam, f)
    for f in decl["fields"]:
        if is_auto(f) and f["name"] not in overrides:
            pv.vals[f["name"]] = len(pv.vals[f["describe"]["of"]])
    return pv


def is_auto(f):
    d = f.get("describe")
    return bool(d) and (d["k"] == "autolength" or (d["k"] == "alias" and d.get("impl") == "autolength"))
