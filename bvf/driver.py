"""Family driver shared by the declaration-driven checks (C01-C04, C08, C10, C12-C14, C19, C20)."""
import math

from . import common, harness, model, monitors, render, spec


def families(run, rng, profile, variants, n_families, instrument=("g",), tag="fam", keep_loaded=False):
    """Yield Bench objects for freshly generated families; accounts definitions, skeletons and
    coverage tuples in the evidence. Families that cannot be defined on this tree are counted
    (and make the run inconclusive above a threshold: the generator only emits declarations that
    are definable on the unchanged tree)."""
    d = common.scratch_dir("bvf_%s_" % tag)
    defined = 0
    failed = 0
    try:
        for i in range(n_families):
            bench, fam, exc = harness.try_family(rng, profile, variants, d, instrument)
            if bench is None:
                failed += 1
                run.count("families_define_failed")
                run.cover("define_failures", "%s: %s" % (type(exc).__name__, str(exc)[:100]))
                if len(run.extra.setdefault("define_failure_samples", [])) < 3:
                    run.extra["define_failure_samples"].append(
                        {"error": "%s: %s" % (type(exc).__name__, str(exc)[:300]), "source": render.family_src(fam, {"g": {}})})
                continue
            defined += 1
            run.count("families_defined")
            if bench.local:
                run.count("families_with_function_local_classes")
            run.count("classes_defined", len(fam["order"]) * len(variants))
            sk = common.stable_hash(spec.family_skeleton(fam))
            bench.skeleton = sk
            run.cover("skeletons", sk)
            for t in spec.coverage_tuples(fam):
                run.cover("feature_tuples", t)
            try:
                yield bench
            finally:
                if not keep_loaded:
                    bench.close()
    finally:
        common.drop_scratch(d)
    if failed > max(3, 0.05 * (defined + failed)):
        run.inconclusive_because("too-many-undefinable-declarations:%d/%d" % (failed, defined + failed))


def start_offsets(fam, rng):
    """Start offsets at which 'position relative to offset' is well defined for this family
    (offset rule of C01/C14, see DESIGN.md)."""
    if not harness.has_begins_reference(fam):
        return [0, 1, 3, 7, rng.randint(2, 24)]
    mods = harness.begins_alignments(fam)
    if mods is None:
        return [0]
    l = 1
    for m in mods:
        if m > 0:
            l = l * m // math.gcd(l, m)
    return [0, l, l * rng.randint(2, 4)]


def observed_spans(roots, base):
    """From the Recorder tree of a successful unpack: leaf value spans (relative to `base`),
    consumed byte set, whether two non-empty leaf spans overlap, traversed extent."""
    spans = []
    extent = 0
    for n in monitors.walk(roots):
        for v in (n.enter, n.exit):
            if v is not None and v - base > extent:
                extent = v - base
    consumed = set()
    overlap = False
    for n in monitors.leaves(roots):
        if n.exit is None or n.exit <= n.enter:
            continue
        a, b = n.enter - base, n.exit - base
        spans.append((a, b, n.cls, n.name))
        for p in range(a, b):
            if p in consumed:
                overlap = True
            consumed.add(p)
    return spans, consumed, overlap, extent


def src_of(bench, variant="g"):
    return render.family_src(bench.fam, {variant: bench.loaded.variants.get(variant, {})}, local=getattr(bench, "local", False))
