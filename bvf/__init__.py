"""bvf: runtime-monitoring verification framework for bisturi (see /verif/DESIGN.md)."""
