"""C11 part C: every real Packet.pack() of a stream of generated declarations runs with
bisturi.packet.Fragments replaced by the shadowing subclass (monitors.ShadowingFragments)."""
from . import common, harness, model, monitors, render


def monitored_pack_stream(run, rng, n_decls=40, inputs_per_decl=6):
    d = common.scratch_dir("bvf_c11c_")
    profile = {"p_move": 0.35, "p_backward_at": 0.35}
    with monitors.fragments_monitor() as mon:
        for i in range(n_decls):
            bench, fam, exc = harness.try_family(rng, profile, {"g": render.VARIANTS["g"], "d": {}}, d, instrument=())
            if bench is None:
                run.count("partC_define_failed")
                continue
            for j in range(inputs_per_decl):
                raw, oc = model.generate_input(fam, rng)
                for v in ("g", "d"):
                    lr = harness.lib_unpack(bench.root(v), raw)
                    if lr.status != "ok":
                        continue
                    before = mon.packs
                    pr = harness.lib_pack(lr.pkt)
                    if mon.packs > before:
                        run.count("pack_calls_monitored")
                        run.count("pack_inserts_monitored", 0)
                    if pr.status == "packeterror":
                        run.count("pack_collisions_observed")
            bench.close()
        run.counters["pack_inserts_monitored"] = mon.inserts
        for v in mon.violations[:5]:
            run.violation("real pack(): " + v["what"], {"part": "C", **v}, None)
    common.drop_scratch(d)
