"""C11 part C: every real Packet.pack() of a stream of generated declarations runs with
bisturi.packet.Fragments replaced by the shadowing subclass (monitors.ShadowingFragments)."""
import io
import os
import shutil
import sys
import unittest

from . import common, harness, model, monitors, render


def repo_tests_under_monitor(run):
    """Part D: the repository's own unit tests (a scratch copy of /repo/tests, so that their generated code
    lands outside the repository) executed in-process with bisturi.packet.Fragments replaced by the
    shadowing subclass: every pack() of the pinned suite is also a C11 execution."""
    src = os.path.join(common.REPO, "tests")
    if not os.path.isdir(src):
        run.count("repo_tests_missing")
        return
    d = common.scratch_dir("bvf_c11d_")
    dst = os.path.join(d, "tests")
    shutil.copytree(src, dst, ignore=shutil.ignore_patterns("__pkts__", "__pycache__", "ds"))
    old_path = list(sys.path)
    old_cwd = os.getcwd()
    try:
        os.chdir(dst)
        sys.path.insert(0, dst)
        with monitors.fragments_monitor() as mon:
            suite = unittest.defaultTestLoader.discover(dst, pattern="test_*.py", top_level_dir=dst)
            res = unittest.TextTestRunner(stream=io.StringIO(), verbosity=0).run(suite)
            run.count("repo_tests_run_under_monitor", res.testsRun)
            run.count("repo_tests_failed_under_monitor(not judged here)", len(res.failures) + len(res.errors))
            run.count("repo_test_packs_monitored", mon.packs)
            run.count("repo_test_inserts_monitored", mon.inserts)
            for v in mon.violations[:3]:
                run.violation("pinned test suite under the fragment monitor: " + v["what"], {"part": "D", **v}, None)
    finally:
        os.chdir(old_cwd)
        sys.path[:] = old_path
        for k in [k for k in sys.modules if k.startswith("test_")]:
            sys.modules.pop(k, None)
        common.drop_scratch(d)


def monitored_pack_stream(run, rng, n_decls=40, inputs_per_decl=6):
    d = common.scratch_dir("bvf_c11c_")
    profile = {"p_move": 0.35, "p_backward_at": 0.35}
    with monitors.fragments_monitor() as mon:
        for i in range(n_decls):
            bench, fam, exc = harness.try_family(rng, profile, {"g": render.VARIANTS["g"], "d": {}}, d, instrument=())
            if bench is None:
                run.count("partC_define_failed")
                continue
            for j in range(inputs_per_decl):
                raw, oc = model.generate_input(fam, rng)
                for v in ("g", "d"):
                    lr = harness.lib_unpack(bench.root(v), raw)
                    if lr.status != "ok":
                        continue
                    before = mon.packs
                    pr = harness.lib_pack(lr.pkt)
                    if mon.packs > before:
                        run.count("pack_calls_monitored")
                        run.count("pack_inserts_monitored", 0)
                    if pr.status == "packeterror":
                        run.count("pack_collisions_observed")
            bench.close()
        run.counters["pack_inserts_monitored"] = mon.inserts
        for v in mon.violations[:5]:
            run.violation("real pack(): " + v["what"], {"part": "C", **v}, None)
    common.drop_scratch(d)
