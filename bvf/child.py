"""E4 child bootstrap:  python -m bvf.child <job.json>

Defines packet classes from rendered source inside a work directory, under an observation layer
that sees every file-system step touching the generated-code cache (stat / open-read /
open-write / write / close / remove / mkdir / rename-replace), and can at each step
  (a) log it, (b) die (os._exit) - crash injection at a real point of the real code,
  (c) block until the parent scheduler grants the step (controlled 2-process schedules).
After each definition a behaviour probe (unpack / pack of given vectors) is executed and
reported as JSON on stdout (one line starting with 'REPORT ').
"""
import builtins
import io
import json
import os
import sys
import time
import traceback


def main():
    if sys.argv[1] == "--fork":
        return fork_main(sys.argv[2:])
    with open(sys.argv[1]) as f:
        job = json.load(f)
    run_job(job)


def import_library(job):
    repo = job["repo"]
    sys.dont_write_bytecode = True
    sys.path.insert(0, repo)
    sys.path.insert(0, job["verif"])
    import bisturi
    import bisturi.packet
    import bisturi.field
    import bisturi.codegen
    assert os.path.realpath(os.path.dirname(bisturi.__file__)) == os.path.realpath(os.path.join(repo, "bisturi"))


def fork_main(paths):
    """python -m bvf.child --fork <jobA.json> <jobB.json>: the library is imported ONCE, then one worker per job is forked
    (as a multiprocessing / pre-fork server would): whatever the library computed at import time is shared by the workers.
    Each worker writes its report to job['report_path']."""
    jobs = []
    for p in paths:
        with open(p) as f:
            jobs.append(json.load(f))
    import_library(jobs[0])
    fds = lambda job: [fd for fd in ((job.get("hooks") or {}).get("announce_fd"), (job.get("hooks") or {}).get("grant_fd")) if fd is not None]
    pids = []
    for job in jobs:
        pid = os.fork()
        if pid == 0:
            for other in jobs:
                if other is not job:
                    for fd in fds(other):
                        try:
                            os.close(fd)
                        except OSError:
                            pass
            run_job(job, imported=True)      # never returns
        pids.append(pid)
    for job in jobs:
        for fd in fds(job):
            try:
                os.close(fd)
            except OSError:
                pass
    rc = 0
    for pid in pids:
        _, status = os.waitpid(pid, 0)
        if status:
            rc = 1
    sys.stdout.flush()
    os._exit(rc)


def run_job(job, imported=False):
    workdir = job["workdir"]
    os.chdir(workdir)
    if not imported:
        import_library(job)
    if job.get("bytecode"):
        sys.dont_write_bytecode = False      # only now: /repo itself is never polluted
    obs = Observer(job)
    obs.install()
    report = {"actions": [], "steps": obs.steps}
    classes = {}
    try:
        for act in job["actions"]:
            report["actions"].append(run_action(act, job, obs, classes))
    finally:
        obs.active = False
    report["completed"] = True
    if job.get("report_path"):
        with open(job["report_path"], "w") as f:
            f.write("REPORT " + json.dumps(report) + "\n")
    else:
        sys.stdout.write("REPORT " + json.dumps(report) + "\n")
        sys.stdout.flush()
    os._exit(0)


# ------------------------------------------------------------------------------------------
class Observer:
    def __init__(self, job):
        self.job = job
        self.steps = []
        self.active = False
        hooks = job.get("hooks") or {}
        self.mode = hooks.get("mode", "log")
        self.die_at = hooks.get("die_at")           # step index: die just before performing it
        self.torn = hooks.get("torn")               # {"step": i, "bytes": k}: at write step i write only k bytes then die
        self.force_mtime = hooks.get("force_mtime")  # after closing a written cache file set its mtime
        self.gate_dirs = hooks.get("gate_dirs")      # the existence test / creation of the cache directory are scheduling points too
        self.gate_in = None
        self.gate_out = None
        if self.mode == "gate":
            self.gate_out = os.fdopen(hooks["announce_fd"], "w", buffering=1)
            self.gate_in = os.fdopen(hooks["grant_fd"], "r", buffering=1)
        self.cache_marker = os.sep + "__pkts__"

    def relevant(self, path):
        try:
            p = os.fspath(path)
        except TypeError:
            return False
        if isinstance(p, bytes):
            p = p.decode("utf-8", "replace")
        return self.cache_marker in p or p.endswith("__pkts__")

    def short(self, path):
        p = os.fspath(path)
        if isinstance(p, bytes):
            p = p.decode("utf-8", "replace")
        i = p.find("__pkts__")
        return p[i:] if i >= 0 else os.path.basename(p)

    def step(self, kind, detail=""):
        """A scheduling / crash point *before* the operation is performed."""
        if not self.active:
            return
        idx = len(self.steps)
        self.steps.append([kind, detail])
        if self.die_at is not None and idx == self.die_at:
            sys.stdout.write("DIED before step %d %s %s\n" % (idx, kind, detail))
            sys.stdout.flush()
            os._exit(77)
        if self.mode == "gate" and self.gated(kind, detail):
            self.active = False
            try:
                self.gate_out.write("STEP %d %s %s\n" % (idx, kind, detail))
                self.gate_out.flush()
                line = self.gate_in.readline()
                if not line:
                    os._exit(78)
            finally:
                self.active = True

    def gated(self, kind, detail):
        """Coarsening of the scheduling points (keeps the interleaving space enumerable): the
        existence test and the (re)load of the cache file, removals, creation/truncation, the
        point right after the cookie line has been written, the close and the rename."""
        if kind == "stat":
            return detail.endswith(".py") or (bool(self.gate_dirs) and detail == "__pkts__")
        if kind == "open-r":
            return detail.endswith(".py")
        if kind == "write":
            self.nwrites = getattr(self, "nwrites", 0) + 1
            return self.nwrites % 4 == 3      # third write of a file: cookie line is on disk, code is not
        if kind == "mkdir":
            return bool(self.gate_dirs)
        return True

    def install(self):
        obs = self
        real_open = builtins.open
        real_stat = os.stat
        real_remove = os.remove
        real_replace = os.replace
        real_rename = os.rename
        real_mkdir = os.mkdir

        def audit(event, args):
            if not obs.active:
                return
            if event == "open":
                path, mode, flags = (list(args) + [None, None, None])[:3]
                if isinstance(path, (str, bytes)) and obs.relevant(path):
                    # reads only (writes are reported by the open wrapper so torn writes can be injected)
                    m = mode or ""
                    if not any(c in m for c in "wax+") and not (isinstance(flags, int) and flags & (os.O_WRONLY | os.O_RDWR)):
                        obs.step("open-r", obs.short(path))
        sys.addaudithook(audit)

        def stat(path, *a, **k):
            if obs.active and isinstance(path, (str, bytes, os.PathLike)) and obs.relevant(path):
                obs.step("stat", obs.short(path))
            return real_stat(path, *a, **k)
        os.stat = stat

        def remove(path, *a, **k):
            if obs.active and obs.relevant(path):
                obs.step("remove", obs.short(path))
            return real_remove(path, *a, **k)
        os.remove = remove
        os.unlink = remove

        def replace(src, dst, *a, **k):
            if obs.active and (obs.relevant(src) or obs.relevant(dst)):
                obs.step("replace", "%s -> %s" % (obs.short(src), obs.short(dst)))
            return real_replace(src, dst, *a, **k)
        os.replace = replace

        def rename(src, dst, *a, **k):
            if obs.active and (obs.relevant(src) or obs.relevant(dst)):
                obs.step("rename", "%s -> %s" % (obs.short(src), obs.short(dst)))
            return real_rename(src, dst, *a, **k)
        os.rename = rename

        def mkdir(path, *a, **k):
            if obs.active and obs.relevant(path):
                obs.step("mkdir", obs.short(path))
            return real_mkdir(path, *a, **k)
        os.mkdir = mkdir

        def open_(file, mode="r", *a, **k):
            if obs.active and isinstance(file, (str, bytes, os.PathLike)) and obs.relevant(file) and any(c in mode for c in "wax+"):
                obs.step("open-w", obs.short(file))
                obs.active = False
                try:
                    fh = real_open(file, mode, *a, **k)
                finally:
                    obs.active = True
                return WriteProxy(obs, fh, file)
            return real_open(file, mode, *a, **k)
        builtins.open = open_
        io.open = open_
        self.active = True


class WriteProxy:
    """File proxy that turns every write()/close() on a cache file into a step and can tear a write.

    Like the buffered text file it stands for, it keeps what write() was given in memory and hands it to the
    operating system when the file is flushed or closed (generated modules are smaller than the 8 KiB buffer).
    A torn write is therefore a death *during that flush*: a prefix of the data reaches the file - whatever name
    the file carries by then - and the process is gone."""

    def __init__(self, obs, fh, path):
        self._obs = obs
        self._fh = fh
        self._path = path
        self._buf = []
        self._tear = None

    def write(self, data):
        obs = self._obs
        idx = len(obs.steps)
        if obs.torn is not None and obs.active and obs.torn["step"] == idx:
            self._tear = obs.torn["bytes"]
            obs.steps.append(["write", "%d bytes (only %d will reach the disk)" % (len(data), self._tear)])
        else:
            obs.step("write", "%d bytes" % len(data))
        self._buf.append(data)
        return len(data)

    def _drain(self):
        data = "".join(self._buf) if (self._buf and isinstance(self._buf[0], str)) else b"".join(self._buf)
        self._buf = []
        if self._tear is not None:
            k = self._tear
            self._fh.write(data[:k])
            self._fh.flush()
            try:
                os.fsync(self._fh.fileno())
            except Exception:
                pass
            sys.stdout.write("DIED torn write: %d of %d bytes flushed\n" % (k, len(data)))
            sys.stdout.flush()
            os._exit(77)
        if data:
            self._fh.write(data)

    def flush(self):
        self._obs.step("flush-w", self._obs.short(self._path))
        self._drain()
        self._fh.flush()

    def close(self):
        obs = self._obs
        obs.step("close-w", obs.short(self._path))
        self._drain()
        self._fh.close()
        if obs.force_mtime is not None:
            try:
                os.utime(self._path, (obs.force_mtime, obs.force_mtime))
            except OSError:
                pass

    def __enter__(self):
        return self

    def __exit__(self, *a):
        self.close()
        return False

    def __getattr__(self, name):
        return getattr(self._fh, name)


# ------------------------------------------------------------------------------------------
def run_action(act, job, obs, classes):
    op = act["op"]
    out = {"op": op, "tag": act.get("tag")}
    if op == "define":
        modname = act["module"]
        path = os.path.join(job["workdir"], modname + ".py")
        obs.active = False
        try:
            with open(path) as f:
                same = f.read() == act["source"]
        except OSError:
            same = False
        if not same:        # (several definers of one declaration may share the declaring file: never rewrite it needlessly)
            with open(path, "w") as f:
                f.write(act["source"])
        obs.active = True
        t0 = time.time()
        try:
            # The declaring module is executed from its source text, never through Python's own
            # bytecode cache: two same-sized sources written within one second would otherwise make
            # *Python* run the stale declaration (an artifact of the harness, not of bisturi).
            import linecache
            import types
            linecache.clearcache()
            module = types.ModuleType(modname)
            module.__file__ = path
            sys.modules[modname] = module
            ids = (job.get("hooks") or {}).get("pretend_ids")
            if ids:
                # a recycled process id: this process carries the pid / thread id of one that died earlier
                import threading
                real_ids = (os.getpid, threading.get_ident)
                os.getpid = lambda: ids[0]
                threading.get_ident = lambda: ids[1]
            try:
                exec(compile(act["source"], path, "exec"), module.__dict__)
            finally:
                if ids:
                    os.getpid, threading.get_ident = real_ids
            cls = getattr(module, act["class"])
            out["defined"] = True
        except BaseException as e:
            out["defined"] = False
            out["exception"] = {"type": type(e).__name__, "msg": str(e)[:300], "tb": traceback.format_exc()[-1500:]}
            return out
        out["define_time"] = time.time() - t0
        classes[act.get("tag") or str(len(classes))] = (cls, (act.get("vectors", []), act.get("constructs", [])))
        # cache file facts
        cache = os.path.join(job["workdir"], "__pkts__", "%s_%s.py" % (modname, act["class"]))
        try:
            obs.active = False
            st = os.stat(cache)
            out["cache_mtime"] = st.st_mtime
            out["cache_size"] = st.st_size
        except OSError:
            out["cache_mtime"] = None
        finally:
            obs.active = True
        out["uses_generated_unpack"] = cls.unpack_impl is not bisturi_packet().Packet.unpack_impl
        out["probe"] = probe(cls, act.get("vectors", []), obs)
        out["construct_probe"] = construct_probe(cls, act.get("constructs", []), obs)
        # earlier classes of this process must keep behaving per their own declaration
        again = {}
        for tag, (c, vecs) in classes.items():
            if c is not cls:
                again[tag] = {"probe": probe(c, vecs[0], obs), "construct_probe": construct_probe(c, vecs[1], obs)}
        out["reprobe_earlier"] = again
        return out
    if op == "sleep_until":
        while time.time() < act["t"]:
            time.sleep(0.005)
        return out
    if op == "remove":
        obs.active = False
        try:
            os.remove(os.path.join(job["workdir"], act["path"]))
            out["removed"] = True
        except OSError as e:
            out["removed"] = False
        obs.active = True
        return out
    raise ValueError(op)


def bisturi_packet():
    import bisturi.packet
    return bisturi.packet


def jsonable(v):
    import bisturi.packet as bp
    if isinstance(v, bytes):
        return {"__bytes__": v.hex()}
    if isinstance(v, list):
        return [jsonable(x) for x in v]
    if isinstance(v, bp.Packet):
        return {"__pkt__": type(v).__name__.rsplit("_", 1)[0],
                "v": {(getattr(f, "descriptor_name", None) or name): jsonable(getattr(v, getattr(f, "descriptor_name", None) or name, None))
                      for name, f, _, _ in v.get_fields()
                      if not name.startswith("_shift_to_") and type(f).__name__ != "Em"}}
    return v


def construct_probe(cls, constructs, obs):
    """Packets built by keyword (bytes given as hex) and serialized."""
    import bisturi.packet as bp
    res = []
    was = obs.active
    obs.active = False
    try:
        for kw in constructs:
            real = {k: (bytes.fromhex(v["__bytes__"]) if isinstance(v, dict) and "__bytes__" in v else v) for k, v in kw.items()}
            try:
                res.append({"packed": cls(**real).pack().hex()})
            except bp.PacketError:
                res.append({"packed": "PacketError"})
            except BaseException as e:
                res.append({"error": type(e).__name__, "msg": str(e)[:150]})
    finally:
        obs.active = was
    return res


def probe(cls, vectors, obs):
    import bisturi.packet as bp
    res = []
    was = obs.active
    obs.active = False
    try:
        for hexraw in vectors:
            raw = bytes.fromhex(hexraw)
            item = {"raw": hexraw}
            try:
                pkt = cls(_initialize_fields=False)
                end = pkt.unpack_impl(raw, 0, root=pkt)
                p2 = cls.unpack(raw)
                item["ok"] = jsonable(p2)
                item["end"] = end
                try:
                    item["packed"] = p2.pack().hex()
                except bp.PacketError:
                    item["packed"] = "PacketError"
            except bp.PacketError:
                item["error"] = "PacketError"
            except BaseException as e:
                item["error"] = type(e).__name__
                item["msg"] = str(e)[:200]
            res.append(item)
    finally:
        obs.active = was
    return res


if __name__ == "__main__":
    main()
