"""Judging the shape of PacketError against the observed failing field (C12)."""
import re

from . import model
from .common import b2j

BETWEEN = re.compile(r"^between '(.+)' and '(.+)'$")


def fixed_size(f):
    """Size in bytes of a declared fixed-size field (plain Int / Data(n)), else None."""
    if "rep" in f or "opt" in f:
        return None
    if f["t"] == "int":
        return f["n"]
    if f["t"] == "data" and f["mode"] == "const":
        return f["size"]
    return None


def bits_run_of(fam, declname, name):
    """Names of the bit fields forming one run with `name` (empty when `name` is not a bit field)."""
    fields = fam["decls"][declname]["fields"]
    conf = fam["decls"][declname]["opts"]
    runs, cur = [], []
    for f in fields:
        if f["t"] == "bits":
            if cur and model.effective_move(f, conf) is not None:
                runs.append(cur)
                cur = []
            cur.append(f["name"])
        else:
            if cur:
                runs.append(cur)
            cur = []
    if cur:
        runs.append(cur)
    for r in runs:
        if name in r:
            return r
    return []


def name_matches(fam, declname, want_name, want_off, got_name, got_off):
    """Does the reported (name, offset) designate the failing field `want_name` beginning at
    `want_off`, or a run of adjacent fixed-size fields containing it (offset = start of run)?
    Returns (ok, reason)."""
    if got_name == want_name:
        if got_off == want_off:
            return True, "exact"
        return False, "offset %r is not where field %s begins (%r)" % (got_off, want_name, want_off)
    m = BETWEEN.match(str(got_name))
    if not m:
        # bit fields of one run share their bytes: the run is read at its first member and written at
        # its last one, so any member of the run designates the same failing bytes
        run_members = bits_run_of(fam, declname, want_name)
        if got_name in run_members:
            if got_off == want_off:
                return True, "bits-run"
            return False, "offset %r is not where the bit-field run of %s begins (%r)" % (got_off, want_name, want_off)
        return False, "names %r, failing field is %r" % (got_name, want_name)
    a, b = m.group(1), m.group(2)
    fields = fam["decls"][declname]["fields"]
    names = [f["name"] for f in fields]
    if a not in names or b not in names or want_name not in names:
        return False, "run %r names unknown fields" % (got_name,)
    ia, ib, iF = names.index(a), names.index(b), names.index(want_name)
    if not (ia <= iF <= ib):
        return False, "run %r does not contain the failing field %r" % (got_name, want_name)
    back = 0
    for j in range(ia, ib + 1):
        sz = fixed_size(fields[j])
        if sz is None:
            return False, "run %r contains the non fixed-size field %r" % (got_name, names[j])
        if j > ia and (fields[j].get("move") is not None):
            return False, "run %r spans a positioned field" % (got_name,)
        if j < iF:
            back += sz
    if got_off != want_off - back:
        return False, "offset %r is not where the run %r begins (%r)" % (got_off, got_name, want_off - back)
    return True, "run"


def check_str(err):
    try:
        s = str(err)
    except Exception as e:
        return "str(PacketError) raised %s: %s" % (type(e).__name__, e)
    if not isinstance(s, str):
        return "str(PacketError) is not a str"
    return None


def judge_error(run, fam, variant, err, unpacking, want_path, witness, failnode=None, known_classifier=None):
    """want_path: model path innermost first [(field, decl, offset_where_field_begins), ...].
    failnode: deepest open wrapper (generic variant only) - the trace oracle."""
    import bisturi.packet as bp
    if not isinstance(err, bp.PacketError):
        run.violation("failure is %s, not PacketError" % type(err).__name__, dict(witness, error=repr(err)[:300]), None)
        return False
    run.count("errors_judged")
    if bool(err.was_error_found_in_unpacking_phase) != bool(unpacking):
        run.violation("PacketError phase flag is wrong (was_error_found_in_unpacking_phase=%r)" % err.was_error_found_in_unpacking_phase,
                      witness, None)
        return False
    s = check_str(err)
    if s:
        run.violation(s, witness, None)
        return False
    if "unpacking" not in str(err) if unpacking else "packing" not in str(err):
        run.violation("str(PacketError) does not mention the phase", dict(witness, text=str(err)[:200]), None)
        return False
    stack = list(err.fields_stack)
    if not stack:
        run.violation("PacketError has an empty fields_stack", witness, None)
        return False
    w_name, w_decl, w_off = want_path[0]
    g_off, g_name, g_cls = stack[0]
    wit = dict(witness, reported_stack=stack, expected_path=want_path)
    # trace oracle: the deepest open wrapper must be the field the model blames
    if failnode is not None:
        node = failnode
        while node is not None and node.elem:
            node = node.parent
        if node is not None:
            t_cls = node.cls.rsplit("_", 1)[0]
            same_run = node.name in bits_run_of(fam, w_decl, w_name) if t_cls == w_decl else False
            if (node.name, t_cls, node.enter) != (w_name, w_decl, w_off) and not (same_run and node.enter == w_off):
                run.count("harness_disagreement")
                run.inconclusive_because("model-and-trace-disagree-on-failing-field")
                run.extra.setdefault("disagreements", []).append(dict(wit, trace=[node.name, node.cls, node.enter]))
                return False
            run.count("failing_field_confirmed_by_trace")
    if g_cls != "%s_%s" % (w_decl, variant):
        run.violation("innermost entry names class %r, the failing field belongs to %r" % (g_cls, "%s_%s" % (w_decl, variant)), wit, None)
        return False
    ok, why = name_matches(fam, w_decl, w_name, w_off, g_name, g_off)
    if not ok:
        mech = known_classifier(stack, want_path) if known_classifier else None
        run.violation("innermost entry does not locate the failing field: %s" % why, wit, mech)
        return False
    if why == "run":
        run.count("run_names_accepted")
    # outward: one entry per enclosing reference / sequence field
    if len(stack) != len(want_path):
        run.violation("fields_stack has %d entries, expected one per enclosing field (%d)" % (len(stack), len(want_path)), wit, None)
        return False
    for (o, n, c), (wn, wd, wo) in list(zip(stack, want_path))[1:]:
        if n != wn or c != "%s_%s" % (wd, variant):
            run.violation("outer stack entry (%r, %r) does not name the enclosing field (%r of %r)" % (n, c, wn, wd), wit, None)
            return False
        if unpacking and o != wo:
            run.count("outer_offset_differs(not judged)")
    run.count("nested_errors_judged" if len(stack) > 1 else "flat_errors_judged")
    return True
