"""Hostile input workloads derived from valid inputs (shared by C03, C04, C12, C14)."""
from . import model


def truncations(raw, start=0, every=1):
    """Every strict prefix of raw (cut points start..len-1)."""
    for k in range(start, len(raw), every):
        yield ("cut@%d" % k, raw[:k])


def interesting_positions(fam, parse_ok):
    """Byte positions of int/bits fields that steer the parse (sizes, counts, selectors,
    positions, conditions): from the model trace of a successful parse."""
    hinted = set()
    for d in fam["decls"].values():
        for f in d["fields"]:
            if f.get("hint"):
                hinted.add((d["name"], f["name"]))
    pos = []
    # map path -> decl by walking trace.fields
    for fe in parse_ok.trace.fields:
        if (fe["cls"], fe["name"]) in hinted and fe["end"] > fe["start"]:
            pos.extend(range(fe["start"], fe["end"]))
    return pos


def corruptions(fam, rng, raw, parse_ok, n=6):
    """Byte corruptions aimed at length/count/selector/position fields, plus a few anywhere."""
    if not raw:
        return
    steer = interesting_positions(fam, parse_ok) if parse_ok is not None else []
    for i in range(n):
        b = bytearray(raw)
        if steer and rng.random() < 0.75:
            p = rng.choice(steer)
        else:
            p = rng.randrange(len(raw))
        if p >= len(b):
            continue
        b[p] = rng.choice([0, 1, 2, 3, 5, 0x7F, 0x80, 0xFF, b[p] ^ 1, (b[p] + 1) & 0xFF, rng.randrange(256)])
        if bytes(b) != raw:
            yield ("corrupt@%d" % p, bytes(b))


def random_strings(rng, n=3):
    for i in range(n):
        L = rng.choice([0, 1, 2, 3, 5, 8, 13, 21, 40])
        alphabet = rng.choice([bytes(range(256)), b"\x00\x01\x02\x03", b"ab;\n\r\x00:", b"\xff\xfe\x00"])
        yield ("random", bytes(rng.choice(alphabet) for _ in range(L)))
