"""Developer tool: model vs library disagreement census on random families (not a check)."""
import collections
import sys
import traceback

from . import common, harness, model, monitors, render, spec


def main(n=200, seed=0, verbose=3):
    common.import_bisturi()
    rng = common.rng_for(seed, "smoke")
    d = common.scratch_dir("bvf_smoke_")
    cats = collections.Counter()
    shown = collections.Counter()

    def report(cat, bench, **kw):
        cats[cat] += 1
        if shown[cat] < verbose:
            shown[cat] += 1
            print("=== %s" % cat)
            print(render.family_src(bench.fam, {"g": {}}))
            for k, v in kw.items():
                print("   %s = %r" % (k, v))

    for i in range(n):
        bench, fam, exc = harness.try_family(rng, None, {"g": render.VARIANTS["g"], "d": {}}, d)
        if bench is None:
            cats["define-fail:%s" % type(exc).__name__] += 1
            if shown["define"] < verbose:
                shown["define"] += 1
                print("=== define fail", repr(exc))
                print(render.family_src(fam, {"g": {}}))
            continue
        for j in range(8):
            raw, oc = model.generate_input(fam, rng)
            cats["gen:" + oc] += 1
            st, mr = harness.model_parse(fam, raw)
            if st == "undefined":
                cats["model-undefined"] += 1
                continue
            for v in ("g", "d"):
                try:
                    lr = harness.lib_unpack(bench.root(v), raw)
                except RecursionError:
                    cats["recursion"] += 1
                    continue
                if st == "ok":
                    if lr.status != "ok":
                        report("lib-rejects-model-accepts", bench, raw=raw, err=str(lr.err)[:300], variant=v, model=mr.value)
                        continue
                    try:
                        pv = monitors.pkt_to_pv(fam, fam["root"], lr.pkt)
                    except monitors.Unreadable as e:
                        report("unreadable", bench, raw=raw, e=str(e))
                        continue
                    if pv != mr.value:
                        report("value-mismatch", bench, raw=raw, lib=pv, model=mr.value, variant=v)
                        continue
                    if lr.end != mr.end:
                        report("end-mismatch", bench, raw=raw, lib=lr.end, model=mr.end, variant=v)
                        continue
                    cats["unpack-agree-ok"] += 1
                    # pack
                    pr = harness.lib_pack(lr.pkt)
                    est, er = harness.model_encode(fam, mr.value)
                    if est == "undefined":
                        cats["encode-undefined"] += 1
                        continue
                    if est == "ok":
                        if pr.status != "ok":
                            report("lib-pack-fails-model-ok", bench, raw=raw, err=str(pr.err)[:300], model=er.data)
                        elif pr.pkt != er.data:
                            report("pack-bytes-mismatch", bench, raw=raw, lib=pr.pkt, model=er.data, variant=v)
                        else:
                            cats["pack-agree-ok"] += 1
                    else:
                        if pr.status == "ok":
                            report("lib-pack-ok-model-fails", bench, raw=raw, lib=pr.pkt, why=er.why)
                        else:
                            cats["pack-agree-fail"] += 1
                else:
                    if lr.status == "ok":
                        report("lib-accepts-model-rejects", bench, raw=raw, why=mr.why, path=mr.path, variant=v)
                    elif lr.status == "exception":
                        report("lib-raises-non-packeterror", bench, raw=raw, err=repr(lr.err))
                    else:
                        cats["unpack-agree-fail"] += 1
                        if v == "g":
                            got = lr.err.fields_stack
                            want = [(o, n, "%s_%s" % (c, v)) for (n, c, o) in mr.path]
                            if got != want:
                                report("fail-stack-mismatch", bench, raw=raw, got=got, want=want, why=mr.why)
        bench.close()
    print()
    for k, v in sorted(cats.items()):
        print("%6d  %s" % (v, k))


if __name__ == "__main__":
    main(int(sys.argv[1]) if len(sys.argv) > 1 else 200, int(sys.argv[2]) if len(sys.argv) > 2 else 0)
