"""E4 parent side: running observed children, behaviour probes against the model, crash
injection and controlled two-process schedules for the generated-code cache (C15, C16)."""
import json
import os
import select
import subprocess
import sys
import time

from . import common, harness, model, render

CHILD_TIMEOUT = 300.0


class Variant:
    """One declaration of the same-named class `P0_x` (module and class name identical across
    variants; only the declaration / options differ)."""

    def __init__(self, tag, fam, options=None, rng=None, nvec=6):
        self.tag = tag
        self.fam = fam
        self.options = dict(options or {})
        self.source = render.family_src(fam, {"x": self.options})
        self.cls = "%s_x" % fam["root"]
        self.vectors = []
        self.expect = []
        self.constructs = []          # keyword sets (top-level data fields only) and the expected pack bytes
        self.construct_expect = []
        root = fam["decls"][fam["root"]]
        datas = [f for f in root["fields"] if f["t"] == "data" and "rep" not in f and "opt" not in f and f["mode"] in ("dyn", "marker")]
        if datas and any("describe" in f for f in root["fields"]):
            for val in (b"abc", b"", b"zz"):
                kw = {datas[0]["name"]: val}
                want = model.defaults(fam, fam["root"], overrides=dict(kw))
                est, er = harness.model_encode(fam, want)
                if est == "ok":
                    self.constructs.append({k: {"__bytes__": v.hex()} for k, v in kw.items()})
                    self.construct_expect.append(er.data.hex())
        seen = set()
        tries = 0
        while len(self.vectors) < nvec and tries < 40:
            tries += 1
            raw, oc = model.generate_input(fam, rng, maxlen=60)
            if raw in seen:
                continue
            seen.add(raw)
            st, mr = harness.model_parse(fam, raw, 0)
            if st == "undefined":
                continue
            self.vectors.append(raw.hex())
            self.expect.append(self._expect(st, mr))
            if st == "ok" and len(raw) > 1:
                cut = raw[:len(raw) // 2]
                if cut not in seen:
                    seen.add(cut)
                    st2, mr2 = harness.model_parse(fam, cut, 0)
                    if st2 != "undefined":
                        self.vectors.append(cut.hex())
                        self.expect.append(self._expect(st2, mr2))

    def _expect(self, st, mr):
        if st == "fail":
            return {"error": "PacketError"}
        est, er = harness.model_encode(self.fam, mr.value)
        packed = er.data.hex() if est == "ok" else ("PacketError" if est == "fail" else None)
        return {"ok": mr.value.to_json(), "end": mr.end, "packed": packed}

    def define_action(self, module):
        return {"op": "define", "module": module, "source": self.source, "class": self.cls, "vectors": self.vectors,
                "constructs": self.constructs, "tag": self.tag}

    def judge_constructs(self, results):
        bad = []
        for got, want, kw in zip(results or [], self.construct_expect, self.constructs):
            if got.get("packed") != want:
                bad.append({"constructed_with": kw, "want_packed": want, "got": got})
        if self.constructs and len(results or []) != len(self.constructs):
            bad.append({"construct_probe": "missing results"})
        return bad

    def judge_probe(self, results):
        """List of mismatch descriptions between the child's probe results and the model."""
        bad = []
        if len(results) != len(self.expect):
            return ["probe returned %d results for %d vectors" % (len(results), len(self.expect))]
        for got, want in zip(results, self.expect):
            if "error" in want:
                if got.get("error") != "PacketError":
                    bad.append({"raw": got["raw"], "want": "PacketError", "got": {k: got.get(k) for k in ("ok", "error", "end")}})
                continue
            if "ok" not in got:
                bad.append({"raw": got["raw"], "want": want["ok"], "got": got.get("error")})
                continue
            if got["ok"] != want["ok"] or got.get("end") != want["end"]:
                bad.append({"raw": got["raw"], "want": want["ok"], "want_end": want["end"], "got": got["ok"], "got_end": got.get("end")})
                continue
            if want["packed"] is not None and got.get("packed") != want["packed"]:
                bad.append({"raw": got["raw"], "want_packed": want["packed"], "got_packed": got.get("packed")})
        return bad


def base_job(workdir, actions, bytecode=False, hooks=None):
    return {"repo": common.REPO, "verif": common.VERIF, "workdir": workdir, "actions": actions, "bytecode": bool(bytecode),
            "hooks": hooks or {"mode": "log"}}


_jobcount = [0]


def write_job(job, directory):
    _jobcount[0] += 1
    p = os.path.join(directory, "job_%d_%d.json" % (os.getpid(), _jobcount[0]))
    with open(p, "w") as f:
        json.dump(job, f)
    return p


def child_env():
    env = dict(os.environ)
    env["PYTHONPATH"] = common.VERIF
    env["PYTHONHASHSEED"] = "0"
    env["PYTHONDONTWRITEBYTECODE"] = "1"
    env[common.GUARD] = "1"
    return env


class ChildResult:
    def __init__(self, status, rc, report, stdout, stderr):
        self.status = status      # completed | died (injected) | crashed | timeout
        self.rc = rc
        self.report = report
        self.stdout = stdout
        self.stderr = stderr

    def action(self, i=-1):
        if self.report and self.report.get("actions"):
            return self.report["actions"][i]
        return None


def parse_stdout(out):
    for line in out.splitlines():
        if line.startswith("REPORT "):
            try:
                return json.loads(line[7:])
            except ValueError:
                return None
    return None


def run_child(job, jobdir, timeout=CHILD_TIMEOUT):
    jp = write_job(job, jobdir)
    try:
        # job["optimize"]: the process runs under `python -O` (its bytecode goes to *.opt-1.pyc, asserts are stripped)
        r = subprocess.run([sys.executable] + (["-O"] if job.get("optimize") else []) + ["-m", "bvf.child", jp], cwd=common.VERIF, env=child_env(),
                           capture_output=True, text=True, timeout=timeout)
    except subprocess.TimeoutExpired as e:
        return ChildResult("timeout", None, None, (e.stdout or b"").decode("utf-8", "replace") if isinstance(e.stdout, bytes) else (e.stdout or ""), "")
    finally:
        try:
            os.remove(jp)
        except OSError:
            pass
    rep = parse_stdout(r.stdout)
    if r.returncode == 0 and rep is not None:
        return ChildResult("completed", 0, rep, r.stdout, r.stderr)
    if r.returncode == 77:
        return ChildResult("died", 77, rep, r.stdout, r.stderr)
    return ChildResult("crashed", r.returncode, rep, r.stdout, r.stderr)


def private_view(shared, name):
    """A private directory for one definer process whose __pkts__ is the *shared* cache directory
    (symlink).  Every process declares its class in its own `<module>.py` (as separate programs /
    test workers would) while all of them share one generated-code cache."""
    os.makedirs(os.path.join(shared, "__pkts__"), exist_ok=True)
    d = os.path.join(shared, "view_%s" % name)
    os.makedirs(d, exist_ok=True)
    link = os.path.join(d, "__pkts__")
    if not os.path.islink(link):
        os.symlink(os.path.join(shared, "__pkts__"), link)
    return d


def cache_dir(workdir):
    return os.path.join(workdir, "__pkts__")


def cache_file(workdir, module, cls):
    return os.path.join(workdir, "__pkts__", "%s_%s.py" % (module, cls))


def pyc_files(workdir):
    out = []
    d = os.path.join(workdir, "__pkts__", "__pycache__")
    if os.path.isdir(d):
        out += [os.path.join(d, f) for f in os.listdir(d)]
    return out


# ------------------------------------------------------------------------------------------ gated pairs
class Gated:
    """A child in gate mode: announces every step and waits for a grant."""

    def __init__(self, job, jobdir):
        self.announce_r, announce_w = os.pipe()
        grant_r, self.grant_w = os.pipe()
        job = dict(job)
        job["hooks"] = dict(job.get("hooks") or {}, mode="gate", announce_fd=announce_w, grant_fd=grant_r)
        self.jp = write_job(job, jobdir)
        self.proc = subprocess.Popen([sys.executable, "-m", "bvf.child", self.jp], cwd=common.VERIF, env=child_env(),
                                     stdout=subprocess.PIPE, stderr=subprocess.PIPE, pass_fds=(announce_w, grant_r))
        os.close(announce_w)
        os.close(grant_r)
        self.buf = b""
        self.pending = None     # announced step waiting for a grant
        self.finished = False
        self.steps = []

    def wait_step(self, timeout=180.0):
        """Block until the child announces its next step or exits. Returns the step text or None."""
        if self.finished:
            return None
        deadline = time.time() + timeout
        while True:
            if b"\n" in self.buf:
                line, self.buf = self.buf.split(b"\n", 1)
                self.pending = line.decode("utf-8", "replace")
                self.steps.append(self.pending)
                return self.pending
            left = deadline - time.time()
            if left <= 0:
                raise TimeoutError("child did not announce a step")
            r, _, _ = select.select([self.announce_r], [], [], min(left, 0.5))
            if r:
                data = os.read(self.announce_r, 4096)
                if not data:
                    self.finished = True
                    self.pending = None
                    return None
                self.buf += data
            elif self.proc.poll() is not None:
                # drain
                try:
                    data = os.read(self.announce_r, 4096)
                except OSError:
                    data = b""
                if data:
                    self.buf += data
                    continue
                self.finished = True
                self.pending = None
                return None

    def grant(self):
        self.pending = None
        os.write(self.grant_w, b"go\n")

    def finish(self, timeout=180.0):
        try:
            out, err = self.proc.communicate(timeout=timeout)
        except subprocess.TimeoutExpired:
            self.proc.kill()
            out, err = self.proc.communicate()
            return ChildResult("timeout", None, None, out.decode("utf-8", "replace"), err.decode("utf-8", "replace"))
        finally:
            for fd in (self.announce_r, self.grant_w):
                try:
                    os.close(fd)
                except OSError:
                    pass
            try:
                os.remove(self.jp)
            except OSError:
                pass
        out = out.decode("utf-8", "replace")
        err = err.decode("utf-8", "replace")
        rep = parse_stdout(out)
        if self.proc.returncode == 0 and rep is not None:
            return ChildResult("completed", 0, rep, out, err)
        return ChildResult("crashed", self.proc.returncode, rep, out, err)

    def kill(self):
        try:
            self.proc.kill()
        except Exception:
            pass


class ForkedWorker:
    """One of the workers forked by a single `bvf.child --fork` launcher: same stepping interface as Gated."""

    def __init__(self, announce_r, grant_w, report_path):
        self.announce_r = announce_r
        self.grant_w = grant_w
        self.report_path = report_path
        self.buf = b""
        self.pending = None
        self.finished = False
        self.steps = []

    def wait_step(self, timeout=180.0):
        if self.finished:
            return None
        deadline = time.time() + timeout
        while True:
            if b"\n" in self.buf:
                line, self.buf = self.buf.split(b"\n", 1)
                self.pending = line.decode("utf-8", "replace")
                self.steps.append(self.pending)
                return self.pending
            left = deadline - time.time()
            if left <= 0:
                raise TimeoutError("worker did not announce a step")
            r, _, _ = select.select([self.announce_r], [], [], min(left, 0.5))
            if r:
                data = os.read(self.announce_r, 4096)
                if not data:
                    self.finished = True
                    self.pending = None
                    return None
                self.buf += data

    def grant(self):
        self.pending = None
        try:
            os.write(self.grant_w, b"go\n")
        except OSError:
            pass

    def result(self):
        rep = None
        try:
            with open(self.report_path) as f:
                rep = parse_stdout(f.read())
        except OSError:
            pass
        for fd in (self.announce_r, self.grant_w):
            try:
                os.close(fd)
            except OSError:
                pass
        if rep is not None:
            return ChildResult("completed", 0, rep, "", "")
        return ChildResult("crashed", None, None, "", "")


def run_forked_schedule(jobA, jobB, jobdir, choices, default=0):
    """Like run_schedule, but the two definers are workers forked from ONE process that imported the library before forking."""
    workers, jps, pass_fds = [], [], []
    for i, job in enumerate((jobA, jobB)):
        announce_r, announce_w = os.pipe()
        grant_r, grant_w = os.pipe()
        job = dict(job)
        job["hooks"] = dict(job.get("hooks") or {}, mode="gate", announce_fd=announce_w, grant_fd=grant_r)
        job["report_path"] = os.path.join(jobdir, "report_%d_%d_%d.txt" % (os.getpid(), _jobcount[0], i))
        jps.append(write_job(job, jobdir))
        pass_fds += [announce_w, grant_r]
        workers.append(ForkedWorker(announce_r, grant_w, job["report_path"]))
    proc = subprocess.Popen([sys.executable, "-m", "bvf.child", "--fork"] + jps, cwd=common.VERIF, env=child_env(),
                            stdout=subprocess.PIPE, stderr=subprocess.PIPE, pass_fds=tuple(pass_fds))
    for fd in pass_fds:
        os.close(fd)
    trace, decisions = [], []
    timed_out = False
    try:
        for w in workers:
            w.wait_step()
        ci = 0
        while True:
            ready = [i for i, k in enumerate(workers) if k.pending is not None]
            if not ready:
                break
            if len(ready) == 2:
                pick = choices[ci] if ci < len(choices) else default
                decisions.append(2)
                ci += 1
            else:
                pick = ready[0]
            k = workers[pick]
            trace.append("%s:%s" % ("AB"[pick], k.pending.split(" ", 2)[-1] if k.pending else ""))
            k.grant()
            k.wait_step()
    except TimeoutError:
        timed_out = True
        proc.kill()
    try:
        out, err = proc.communicate(timeout=180)
    except subprocess.TimeoutExpired:
        proc.kill()
        out, err = proc.communicate()
        timed_out = True
    for jp in jps:
        try:
            os.remove(jp)
        except OSError:
            pass
    ra, rb = workers[0].result(), workers[1].result()
    err = err.decode("utf-8", "replace")
    if timed_out:
        ra = ChildResult("timeout", None, None, "", err)
    else:
        ra = ChildResult(ra.status, ra.rc, ra.report, "", err)
        rb = ChildResult(rb.status, rb.rc, rb.report, "", err)
    return ra, rb, trace, decisions


def run_schedule(jobA, jobB, jobdir, choices, default=0):
    """Run two gated children under a schedule. `choices` is a list of 0/1 decisions taken at the
    successive decision points (both children blocked at a step); after it is exhausted `default`
    is used. Returns (resA, resB, trace, decision_log) where decision_log[i] = number of
    alternatives (1 or 2) available at decision i."""
    a = Gated(jobA, jobdir)
    b = Gated(jobB, jobdir)
    kids = [a, b]
    trace = []
    decisions = []
    try:
        a.wait_step()
        b.wait_step()
        ci = 0
        while True:
            ready = [i for i, k in enumerate(kids) if k.pending is not None]
            if not ready:
                break
            if len(ready) == 2:
                pick = choices[ci] if ci < len(choices) else default
                decisions.append(2)
                ci += 1
            else:
                pick = ready[0]
            k = kids[pick]
            trace.append("%s:%s" % ("AB"[pick], k.pending.split(" ", 2)[-1] if k.pending else ""))
            k.grant()
            k.wait_step()
    except TimeoutError:
        for k in kids:
            k.kill()
        ra, rb = a.finish(5), b.finish(5)
        return ChildResult("timeout", None, None, "", ""), rb, trace, decisions
    ra = a.finish()
    rb = b.finish()
    return ra, rb, trace, decisions
