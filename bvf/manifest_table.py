"""Source of truth for MANIFEST.json (regenerate with bin/mkmanifest)."""
import json
import os

from .common import VERIF

CHECKS = {}
NOT_APPLICABLE = {}


def check(pid, category, text, note, technique, design_ref):
    CHECKS[pid] = {
        "property_id": pid,
        "quick_cmd": "bin/check %s --tier quick" % pid,
        "thorough_cmd": "bin/check %s --tier thorough" % pid,
        "evidence_file": "evidence/%s.json" % pid,
        "replay_cmd_template": "bin/check %s --replay {path}" % pid,
        "engine": "bvf",
        "level_claimed": {"category": category, "text": text, "design_ref": design_ref},
        "level_note": note,
        "technique": technique,
    }


check("C11", "exploration",
      "History monitor with an executable sparse-array model: every operation history up to length 3 (quick) / 4 "
      "(thorough) over a 36-operation alphabet is executed on the real Fragments (bounded-exhaustive), plus seeded random "
      "histories and every real Packet.pack() of generated declarations under a shadowing Fragments subclass. "
      "Held = no divergence on the executions produced; not a proof beyond the enumerated bound.",
      "Trusts the 40-line shadow model (dict position->byte, extent, cursor) as the meaning of C11 and that unique byte "
      "values make histories unambiguous. Empty-chunk raising behaviour is not judged (not fixed by the property).",
      "runtime monitoring: history + executable model (shadow sparse array), bounded-exhaustive histories, monitored real pack() calls",
      "DESIGN.md section 3 C11")


def build():
    import glob
    props = []
    with open(os.path.join(VERIF, "properties.jsonl")) as f:
        for line in f:
            line = line.strip()
            if line:
                props.append(json.loads(line)["id"])
    na = []
    for pid in props:
        if pid not in CHECKS:
            na.append({"property_id": pid,
                       "reason": NOT_APPLICABLE.get(pid, "check under construction in this framework; not claimed until its monitor has been validated on the unchanged tree")})
    return {
        "version": 1,
        "setup_cmd": "bin/setup",
        "hooks": {
            "guard": "BISTURI_VERIF",
            "enable": "no source hooks: every monitor is attached from the harness at run time (bytes subclass, Fragments "
                      "subclass, get_fields() wrappers, sys.monitoring, audit hooks); BISTURI_VERIF=1 is only exported to mark harness processes",
            "baseline_off_cmd": "cd /repo && env -u BISTURI_VERIF /venv/bin/python -m pytest -ra -q -p no:cacheprovider --timeout=900 --continue-on-collection-errors",
            "source_commits": [],
            "add_only": True,
        },
        "engines": [{"name": "bvf", "path": "bvf/", "serves_properties": sorted(CHECKS),
                     "kind_free_text": "runtime monitoring harness: seeded declaration generator + renderer, executable reference model, "
                                       "in-process monitors (traced bytes, field enter/exit recorder, shadowing fragment buffer), "
                                       "process controller for cache crash/schedule exploration"}],
        "checks": [CHECKS[k] for k in sorted(CHECKS)],
        "not_applicable": na,
        "notes": "All checks run /repo's current working tree (imported from /repo, asserted). Exit 0 held / 1 VIOLATION / 2 INCONCLUSIVE. "
                 "Known findings: known_findings.json. See DESIGN.md.",
    }


def write():
    m = build()
    with open(os.path.join(VERIF, "MANIFEST.json"), "w") as f:
        json.dump(m, f, indent=1)
        f.write("\n")
    return m
