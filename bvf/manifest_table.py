"""Source of truth for MANIFEST.json (regenerate with bin/mkmanifest)."""
import json
import os

from .common import VERIF

CHECKS = {}
NOT_APPLICABLE = {}


def check(pid, category, text, note, technique, design_ref):
    CHECKS[pid] = {
        "property_id": pid,
        "quick_cmd": "bin/check %s --tier quick" % pid,
        "thorough_cmd": "bin/check %s --tier thorough" % pid,
        "evidence_file": "evidence/%s.json" % pid,
        "replay_cmd_template": "bin/check %s --replay {path}" % pid,
        "engine": "bvf",
        "level_claimed": {"category": category, "text": text, "design_ref": design_ref},
        "level_note": note,
        "technique": technique,
    }


check("C11", "exploration",
      "History monitor with an executable sparse-array model: every operation history up to length 3 (quick) / 4 "
      "(thorough) over a 36-operation alphabet is executed on the real Fragments (bounded-exhaustive), plus seeded random "
      "histories and every real Packet.pack() of generated declarations under a shadowing Fragments subclass. "
      "Held = no divergence on the executions produced; not a proof beyond the enumerated bound. Also: buffers created with other fill bytes.",
      "Trusts the 40-line shadow model (dict position->byte, extent, cursor) as the meaning of C11 and that unique byte "
      "values make histories unambiguous. Empty-chunk raising behaviour is not judged (not fixed by the property).",
      "runtime monitoring: history + executable model (shadow sparse array), bounded-exhaustive histories, monitored real pack() calls",
      "DESIGN.md section 3 C11")


check("C01", "exploration",
      "Trace oracle over real executions: for thousands of generated declarations (whole declaration language) and inputs from a "
      "lazy-buffer generator at several start offsets, the consumed byte spans observed through field wrappers decide what pack() "
      "must reproduce, fill or reject (overlap). Generic and generated variants. Held on the executions produced; sampling, not proof.",
      "Trusts that enter/exit cursor offsets of get_fields()/prototype wrappers in the all-generic variant are the consumed spans; "
      "the reference model must agree on them (else inconclusive). Statement exclusions and the offset rule are applied by the generator.",
      "runtime monitoring: field enter/exit recorder + trace oracle on unpack->pack executions, reference-model cross-check",
      "DESIGN.md section 3 C01")

check("C04", "exploration",
      "Every truncation point of every generated valid input (plus targeted corruptions and random strings) is executed on the real "
      "library; a cursor monitor (no value-bearing field span beyond len(raw)) and a strict reference model (no over-acceptance, no "
      "fabricated value, PacketError only, silent -> None) observe each execution. Odd widths 3,5,6,7,9,16 and 24/40/48-bit groups included.",
      "Trusts the strict reference model as the meaning of 'as many bytes as the declaration requires'; model-Undefined inputs are skipped and counted.",
      "runtime monitoring: truncation sweep + cursor monitor + strict reference-model oracle",
      "DESIGN.md section 3 C04")

check("C06", "exploration",
      "1098 real classes (23 sizing modes x include_delimiter x search_buffer_length x 3 code-generation option sets, Data between "
      "two sentinels) run on ~40k (quick) / ~1M (thorough) adversarial inputs; a ten-line first-occurrence / exact-length model decides "
      "value, cursor (through the sentinel and the end offset), error/no-error and the packed bytes. Also: the field inside every wrapper (when, repeated, Ref(Sub) with its own window, selector literal, positioned) and context-sensitive regex delimiters (look-behind, word boundary, anchors) judged where both readings of 'at or after the cursor' agree.",
      "Trusts the small model in c06.py (Python re semantics for regex markers). pack() of regex markers not kept in the value is not judged (F2).",
      "runtime monitoring: reference-model oracle over adversarial inputs on sentinel-framed declarations",
      "DESIGN.md section 3 C06")

check("C09", "exploration",
      "Seeded random expression trees (depth<=4 quick / <=6 thorough; every binary operator in 4 operand shapes, unary, n-ary forms) are "
      "compiled by the real deferred-expression machinery and evaluated on parsed packets; value, exact type and exception class are "
      "compared with strict eager evaluation; the same trees are placed as Data size, repeat count and when condition in fresh classes. Also: described / bit / optional / repeated leaves (oracle decodes the parsed value itself) and chooses / if_true_then_else over all call forms and key types, multi-level tables.",
      "Trusts Python's own eager evaluation of the same tree as the meaning; trees with huge pow/shift are skipped before the library is called (counted).",
      "runtime monitoring: differential oracle (compiled deferred expression vs eager evaluation) over random trees",
      "DESIGN.md section 3 C09")

check("C12", "exploration",
      "Every failing execution of a truncation/corruption sweep (unpack) and of invalid-leaf / colliding value trees (pack) is judged: "
      "exception type, phase flag, innermost entry (field or run containing it, class, offset where it begins), one entry per enclosing "
      "field, str() total, silent -> None, non-bytes -> ValueError. The failing field is observed (deepest open wrapper) and cross-checked with the model.",
      "Trusts the Recorder's deepest-open-wrapper as the failing field and the model's Fail path; outer offsets are not judged. Known findings F11, F12 are classified by mechanism.",
      "runtime monitoring: failure-injection workload + error-shape oracle against observed failing field",
      "DESIGN.md section 3 C12")


check("C02", "exploration",
      "Consistent value trees (from lazy parses of the reference model: boundary ints, empty/maximal lists, absent optionals, nested "
      "packets) are built into real packets three ways (keywords, attribute assignment, mixed) in generic and generated variants; a "
      "reference encoder decides the packed bytes, a shadowing Fragments records the insert trace (each byte once, in order, at the "
      "model's position), and the re-parse must give equal values, end where the model ends, and assert_consistency() True.",
      "Trusts model.encode as the meaning of 'in-order concatenation at declared positions'. Raw-inspecting callbacks and regex "
      "delimiters not kept are excluded (known finding F2 exhibited by a deterministic probe).",
      "runtime monitoring: reference encoder oracle + insert-trace monitor on pack->unpack executions",
      "DESIGN.md section 3 C02")

check("C03", "exploration",
      "The same generated declaration is defined under 5 (quick) / all 16 (thorough) combinations of the four code-generation options "
      "and every variant is executed in lock-step with the all-generic variant on valid, truncated, corrupted and random inputs and on "
      "well-typed and ill-typed value trees: outcome class, field values, end offset and packed bytes must coincide. Generated struct "
      "formats seen are recorded. Also: hand-written layouts with user descriptors (every subset of the sync hooks), embedded packets and sizes/counts from absent optionals under all 16 option sets.",
      "The all-generic variant of the real library is the reference (as the property states). Wrong-length Data(n) values are out of domain.",
      "runtime monitoring: lock-step differential execution of code-generation variants of the real library",
      "DESIGN.md section 3 C03")

check("C05", "exploration",
      "Arithmetic oracle (no struct/int.from_bytes) over 260 (quick) / 1242 (thorough) Int configurations (width x signedness x 5 "
      "endianness spellings x class default) in three layouts and three code-generation option sets: all 256 patterns for n=1, all "
      "65536 for n=2 in thorough (exhaustive), byte-lane sweeps over four backgrounds and boundaries above; every representable value "
      "packs back; out-of-range and non-integers must raise PacketError; truncations must not decode. Also: optional/until/selected layouts, value histories through one field object (equal non-integers after integers), run-time constructed Ints through Ref callables with id recycling.",
      "Trusts the arithmetic definition of two's complement in c05.py (decode and encode cross-checked against each other on every pattern).",
      "runtime monitoring: arithmetic oracle over enumerated configurations and byte patterns",
      "DESIGN.md section 3 C05")

check("C07", "exploration",
      "All 128 compositions of 8 bits x all 256 patterns (exhaustive), all 32768 compositions of 16 bits in thorough, sampled "
      "compositions of 16..128 bits, runs embedded between other fields, two runs per class, three option sets: unpack, pack of in-range, "
      "out-of-range, negative and huge per-field values, repeated pack, round trips, truncations; non-multiple-of-8 runs must be rejected "
      "with ByteBoundaryError at class definition. Also: failed-pack histories and bit-run packets reached by nesting and by copy/deepcopy/pickle/prototype clone.",
      "Trusts the integer-arithmetic model of a big-endian MSB-first shared integer written from the statement.",
      "runtime monitoring: arithmetic oracle over enumerated bit-width compositions",
      "DESIGN.md section 3 C07")

check("C08", "exploration",
      "Structure-heavy generated declarations run under the field recorder with the count/until/when callables wrapped: element events "
      "== list length == max(count,0); until evaluated exactly once per element seeing a list one longer, stopping at the first true; "
      "false when => no events, no cursor movement; optional parsed iff its condition; cursor continuity across nested packets; plus "
      "values and end offset against the reference model for valid, truncated and corrupted inputs, generic and generated variants.",
      "Trusts the recorder/control wrappers as observations and the reference model as the declared semantics; evaluation order of count vs when is not judged.",
      "runtime monitoring: control-callable and field-event monitors with trace invariants + reference-model oracle",
      "DESIGN.md section 3 C08")

check("C10", "exploration",
      "The same packet is observed while parsed and while serialized: both event trees must have the same shape and every field and "
      "Move pseudo-field must begin/end at the same relative position (bit runs compared as a whole); alignment arithmetic (least "
      "advance < alignment, multiple relative to the reference) and at/shift targets are checked model-free for constant arguments and "
      "against the reference model for field/callable targets; skipped bytes must be '.'. Positioning-heavy declarations, three "
      "references, class align, repeated(aligned=), nesting, several start offsets. Also: positions given by described fields (stored vs computed offsets).",
      "Trusts wrapper entry/exit cursors as read/write positions. Negative cursors/alignments are undefined and skipped; overlapping trees are C01's.",
      "runtime monitoring: paired parse/serialize event-tree comparison + Move arithmetic monitor",
      "DESIGN.md section 3 C10")

check("C14", "exploration",
      "Metamorphic relation executed on the real library: unpack(pre+raw+post, len(pre)) vs unpack(raw) for hostile pre/post (delimiters, "
      "copies of raw, 0xff runs): equal values, end offset shifted by len(pre); failing inputs fail identically with every fields_stack "
      "offset shifted. Declarations are the generator's minus those the statement excludes. Also: positions written before when()/repeated() (prefix relation only) and a population of overlapping fixed-size layouts (backward at / negative shift). Also: one bytes object re-parsed at descending offsets, malformed inputs (steering bytes swept over small negative values on computed sizes), prefixes that put a record byte on a 256/4096/8192 boundary.",
      "Model-free. The parsed region is [offset, highest cursor reached); post is omitted for read-to-end fields and lengthenable regex delimiters.",
      "runtime monitoring: metamorphic oracle (padding invariance) over generated declarations",
      "DESIGN.md section 3 C14")

check("C17", "exploration",
      "A three-variable state machine (explicit flag, explicit value, tracked value) is the model; every operation history up to length "
      "4 (quick) / 6 (thorough) over {set tracked x2, set described x2, delete, read, pack} from 8-9 start states (constructor forms and "
      "unpack) is executed on 12 real classes (AutoLength / Auto, alone and inside a vectorised run, repeated tracked field; three option "
      "sets) and compared after the operations: attribute reads, pack bytes (reference encoding by int.to_bytes), pack purity, no __dict__; "
      "two-packet histories check the flag is per instance. Exhaustive for the stated bound. Also: positioned, embedded, optional-tracked and chained layouts, failing computed reads on two live packets, explicit-equals-computed start states, copies.",
      "Trusts the state machine in c17.py as the meaning of the statement; bounded-exhaustive, not a proof beyond the bound.",
      "runtime monitoring: exhaustive bounded operation histories against an executable state-machine model",
      "DESIGN.md section 3 C17")


check("C19", "exploration",
      "Cls() and Cls(**subset) for keyword subsets of size 0, 1, 2 and all over generated declarations with user defaults on ~45% of the "
      "fields (Int/Bits/Data/list/optional defaults, prototype instances with their own defaults, described fields): visible values must "
      "equal the model's default table overridden by exactly the keywords, pack() must be the reference encoding; freshness of lists and "
      "nested packets is checked by object identity and by mutating one packet and re-reading others. Also: kept-and-modified prototype objects, implicit sub-packet declarations, embedded-reference defaults.",
      "Trusts model.defaults / model.encode as the statement's default table and encoding. F2 (regex delimiter not kept) exhibited by a probe, reported as KNOWN-FINDING.",
      "runtime monitoring: reference-model oracle on constructed packets + object-identity aliasing scan",
      "DESIGN.md section 3 C19")

check("C20", "exploration",
      "Pairs of real packets (parsed twice, built twice, parsed vs built, described fields left automatic vs explicit, before/after "
      "pack(), one leaf changed at any depth, same declaration in two classes, non-packets) over declarations emphasising "
      "at/shift/aligned, class align, Em and described fields: == must equal isinstance and model-tree equality, != its negation, "
      "neither may raise, repr returns a str. Also: totality against anything_like() pattern packets and classes with embedded packets.",
      "Trusts model value trees read through public attributes as 'the value-bearing fields'.",
      "runtime monitoring: structural-equality oracle over generated packet pairs, totality monitor for ==, != and repr",
      "DESIGN.md section 3 C20")


check("C18", "exploration",
      "Flat generated declarations over Int/Bits/Data (all sizing modes, kept regex delimiters, class endianness / search window) x 8 "
      "subsets of fixed fields incl. constrained Any(startswith/endswith/contains) x corpora (the source encoding, other valid "
      "encodings, near misses inside fixed fields, random strings): building the regexp must not raise; "
      "unpack(r)==pattern => regexp matches r; filter() with and without the pre-filter must return the same packets.",
      "Equality is the library's own == with the pattern on the left. Known findings F15 (size from ==/!= with an Any field) and F16 "
      "('$' at the search-window edge) are classified by mechanism from the witness.",
      "runtime monitoring: soundness oracle for the derived regexp over pattern x corpus executions",
      "DESIGN.md section 3 C18")


check("C13", "exploration",
      "Part A: random operation histories (construct / unpack / set leaf / append / set nested / pack / repr) over 3-6 live packets of "
      "related classes; after every operation every live packet is compared with its shadow value tree and baseline pack() output "
      "(pack twice) and all object graphs are scanned for shared lists / nested packets by id(). Part B: two operations on distinct "
      "packets run in two threads whose field-entry points are forced through enumerated/sampled interleavings (distinct hook orders "
      "counted). Part C: 8 free-running threads with yield injection at line events inside bisturi and a 1us switch interval. Also: single-preemption sweeps at line granularity (sys.monitoring LINE events; thread 0 suspended before its k-th line in the library while thread 1 runs a whole operation), an isolation twin (a packet whose output deviates is rebuilt alone on freshly defined classes), same-named live classes of two factories, bytearray values.",
      "Thread schedules are forced at field-entry granularity and only sampled below it. F2 (regex delimiter remembered on the shared field) "
      "is exhibited by a deterministic probe and reported as KNOWN-FINDING; such fields are left out of the random histories.",
      "runtime monitoring: shadow-state history checker + aliasing scan + controlled thread interleavings + yield injection",
      "DESIGN.md section 3 C13")


check("C15", "exploration",
      "Definition histories across real processes: sequences of define(variant, new/same process, bytecode on/off) of one same-named "
      "class interleaved with cache tampering (foreign module seeded, .py deleted with its .pyc kept, same-second mtime forced from the "
      "child's close hook, cache removed) over designed same-length variant pairs, option-only variants and generated declarations. "
      "After every define a behaviour probe is compared with the reference model of that variant and earlier classes of the process "
      "are probed again; the observed file-system trace separates cache hits from rewrites. Also: direction-ladder histories in one process, checksum-neutral twins, twins differing only in non-ASCII characters or only in descriptor hooks, foreign modules without cookie, the current declaration's own module cut short, a `python -O` process between two plain ones (stale bytecode).",
      "Trusts the probe vectors to distinguish variants and the forced mtime as a faithful stand-in for a same-second write. Histories are sampled.",
      "runtime monitoring: process-level history exploration with fault injection at file-system hooks + behaviour probe against the reference model",
      "DESIGN.md section 3 C15")

check("C16", "fault_enumeration",
      "Crash points: a definer is killed just before every observed file-system step of the cache update and after every 16th (quick) / "
      "every (thorough) byte of every write, from an empty cache and during a rewrite; fresh processes then define the same and a "
      "different same-named declaration. Schedules: two gated definers (identical / different declarations, clean / pre-seeded cache) "
      "are driven step by step through seeded (quick) or depth-first enumerated (thorough, bounded) interleavings, followed by a late "
      "definer. Stress: free-running processes redefining two variants in one directory. Every definition must succeed and probe per its own declaration. Also: buffered-write model (a torn write is a death during flush/close), followers carrying the dead definer's pid/thread id, schedules in a directory without cache directory, schedules of two workers forked after the library was imported.",
      "Crash = os._exit at an observed step (no power-loss reordering); interleavings at the granularity of coarsened file-system steps. Watchdog expiry is inconclusive.",
      "runtime monitoring: crash-point enumeration + controlled two-process scheduler + stress, behaviour probe oracle",
      "DESIGN.md section 3 C16")


def build():
    import glob
    props = []
    with open(os.path.join(VERIF, "properties.jsonl")) as f:
        for line in f:
            line = line.strip()
            if line:
                props.append(json.loads(line)["id"])
    na = []
    for pid in props:
        if pid not in CHECKS:
            na.append({"property_id": pid,
                       "reason": NOT_APPLICABLE.get(pid, "check under construction in this framework; not claimed until its monitor has been validated on the unchanged tree")})
    return {
        "version": 1,
        "setup_cmd": "bin/setup",
        "hooks": {
            "guard": "BISTURI_VERIF",
            "enable": "no source hooks: every monitor is attached from the harness at run time (bytes subclass, Fragments "
                      "subclass, get_fields() wrappers, sys.monitoring, audit hooks); BISTURI_VERIF=1 is only exported to mark harness processes",
            "baseline_off_cmd": "cd /repo && env -u BISTURI_VERIF /venv/bin/python -m pytest -ra -q -p no:cacheprovider --timeout=900 --continue-on-collection-errors",
            "source_commits": [],
            "add_only": True,
        },
        "engines": [{"name": "bvf", "path": "bvf/", "serves_properties": sorted(CHECKS),
                     "kind_free_text": "runtime monitoring harness: seeded declaration generator + renderer, executable reference model, "
                                       "in-process monitors (traced bytes, field enter/exit recorder, shadowing fragment buffer), "
                                       "process controller for cache crash/schedule exploration"}],
        "checks": [CHECKS[k] for k in sorted(CHECKS)],
        "not_applicable": na,
        "notes": "All checks run /repo's current working tree (imported from /repo, asserted). Exit 0 held / 1 VIOLATION / 2 INCONCLUSIVE. "
                 "Known findings: known_findings.json. See DESIGN.md.",
    }


def write():
    m = build()
    with open(os.path.join(VERIF, "MANIFEST.json"), "w") as f:
        json.dump(m, f, indent=1)
        f.write("\n")
    return m
