"""Predicates over generated declaration families, used as `accept=` filters (rejection sampling) by checks that need a
population in which a particular combination of features is certain to occur."""


def _fields(fam):
    for d in fam["decls"].values():
        for f in d["fields"]:
            yield d, f


def shares_a_literal(fam):
    """Two selectors of one declaration bound to one options table that holds literal fields."""
    return any("share" in f and any(o["t"] != "ref" for o in f["options"].values()) for _, f in _fields(fam))


def size_can_go_negative(fam):
    """Data(field - 1) / Data(3 - field): a small or corrupted steering value makes the declared size negative."""
    return any(f["t"] == "data" and f.get("mode") == "dyn" and isinstance(f["size"].get("e"), list) and f["size"]["e"][:2] == ["b", "sub"]
               for _, f in _fields(fam))


def counted_sequence_of_possibly_empty_elements(fam):
    """A counted sequence whose elements may be zero bytes wide (the count can exceed the number of bytes left)."""
    for _, f in _fields(fam):
        if "rep" in f and "count" in f["rep"] and f["t"] == "data" and \
                ((f.get("mode") == "const" and f["size"] == 0) or f.get("mode") == "dyn"):
            return True
    return False


def little_class_with_optional_int_default(fam):
    """An optional multi-byte Int without its own byte order, holding a non byte-symmetric default, in a class whose default byte
    order is not big-endian."""
    for d, f in _fields(fam):
        if d["opts"].get("endianness") in ("little", "local") and "opt" in f and f["t"] == "int" and f["n"] >= 2 and f.get("endian") is None \
                and f["opt"].get("default") in (1, 5, 258):
            return True
    return False


def far_placeholder_then_backward_empty(fam):
    """An Em placed with at() (an end mark) followed, later in the declaration, by a positioned byte string that may be empty."""
    for d in fam["decls"].values():
        seen_em = False
        for f in d["fields"]:
            m = f.get("move")
            if f["t"] == "em" and m and m["op"] == "at":
                seen_em = True
            elif seen_em and f["t"] == "data" and m and m["op"] in ("at", "shift") and not any(k in f for k in ("rep", "opt")) and \
                    (f.get("mode") == "dyn" or (f.get("mode") == "const" and f["size"] == 0)):
                return True
    return False


def element_size_uses_running_index(fam):
    """A counted sequence whose element size is computed from the length of the list being built."""
    for _, f in _fields(fam):
        if "rep" in f and f["t"] == "data" and f.get("mode") == "dyn" and f["size"].get("form") == "lambda" and \
                isinstance(f["size"].get("e"), list) and f["size"]["e"][:2] == ["b", "add"] and f["size"]["e"][2][:2] == ["u", "len"]:
            return True
    return False


def _expr_fields(e):
    if isinstance(e, list):
        if e and e[0] == "f":
            yield e[1]
        for x in e[1:]:
            yield from _expr_fields(x)


def early_computed_size_that_can_go_negative(fam):
    """The root declaration has, among its first four fields, an unwrapped byte string whose size is an expression / callable over
    a one-byte integer that is signed or is subtracted: one corrupted byte makes the size a small negative number."""
    root = fam["decls"][fam["root"]]["fields"]
    ints = {f["name"]: f for f in root if f["t"] == "int" and not any(k in f for k in ("rep", "opt", "move", "lost_move"))}
    for f in root[:4]:
        if f["t"] == "data" and f.get("mode") == "dyn" and not any(k in f for k in ("rep", "opt", "move", "lost_move")) \
                and f["size"]["form"] in ("expr", "lambda"):
            e = f["size"]["e"]
            for name in _expr_fields(e):
                i = ints.get(name)
                if i and i["n"] == 1 and (i["signed"] or (isinstance(e, list) and e[0] == "b" and e[1] == "sub")):
                    return True
    return False


def selector_between_integers_of_different_shape(fam):
    """The root declaration has an unwrapped run-time selected field at least two of whose alternatives are integers that differ in
    width, sign or byte order (the same *kind* of field, another encoding)."""
    for f in fam["decls"][fam["root"]]["fields"]:
        if f["t"] == "sel" and not any(k in f for k in ("rep", "opt")):
            shapes = {(o["n"], o["signed"], o["endian"]) for o in f["options"].values() if o["t"] == "int"}
            if len(shapes) >= 2:
                return True
    return False
