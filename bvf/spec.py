"""E1: seeded generator of *declaration specs* (JSON-serialisable trees).

family = {"root": "P0", "decls": {"P0": Decl, "P1": Decl, ...}, "order": ["P2", "P1", "P0"]}
Decl   = {"name", "opts": {endianness?, align?, search_buffer_length?}, "fields": [Field]}
Field  = {"name", "t": int|data|bits|ref|sel|em, ...kind params..., "move"?, "rep"?, "opt"?, "default"?, "hint"?}
Dyn    = {"form": const|field|expr|lambda, "e": Expr}
Expr   = ["c", v] | ["f", name] | ["u", op, e] | ["b", op, l, r] | ["i", e, k] | ["sl", e, a, b]
         | ["ch", key, form, options] | ["ite", cond, a, b, form]

Every size / count / condition / position / selector comes from this one Expr vocabulary,
which is rendered three ways (deferred field expression, lambda, native evaluation in the
model), so the same declaration is exercised through all of bisturi's normalisation paths.

Generator constraints are the *domain restrictions* listed in DESIGN.md section 2 (E1); each
is a place where the declaration language itself is undefined or rejected.
"""
import copy

REGEXES = {
    # id: (pattern, single_string) -- single_string: the delimiter matched is always the same string
    "crlf": (rb"\r?\n", False),
    "nuls": (rb"\x00+", False),
    "semi": (rb";", True),
    "sep": (rb"[;,]", False),
    "nl_or_end": (rb"\n|$", False),
    "ab_or_a": (rb"ab|a", False),
    "xx": (rb"xx", True),
    # delimiters whose match depends on what precedes the cursor position (look-behind, anchors)
    "noesc_quote": (rb'(?<!\\)"', True),
    "lb_semi": (rb"(?<![a-z]);", True),
    "caret_or_comma": (rb"^;|,", False),
}
MARKERS = [b"\x00", b"\r\n", b";", b"ab", b"aab", b"\xff\xfe", b"::"]

DEFAULT_PROFILE = {
    "max_fields": 6,
    "min_fields": 1,
    "max_depth": 3,
    "kinds": {"int": 34, "data": 26, "bits": 8, "ref": 12, "sel": 6, "em": 3},
    "p_rep": 0.16,
    "p_opt": 0.10,
    "p_move": 0.14,
    "p_class_endianness": 0.2,
    "p_class_align": 0.08,
    "p_class_sbl": 0.15,
    "p_default": 0.25,
    "p_instance_proto": 0.3,
    "moves": {"at": 4, "shift": 3, "aligned": 4},
    "references": {"innermost-pkt": 4, "begins": 2, "current-offset": 2},
    "allow_begins": True,          # C14 switches this off
    "allow_raw_callbacks": True,   # C14 switches this off
    "allow_regex_nokeep_multi": False,  # regex delimiter not kept that can match different strings (C01 exclusion)
    "allow_regex_nokeep_single": True,  # regex delimiter not kept that always matches the same string (F2 shows on pack)
    "allow_eos": True,
    "allow_noconsume": False,      # Data(until_marker=<bytes>, consume_delimiter=False): only where no pack() output is judged (C18)
    "allow_negative": True,        # allow expressions that can go negative (sizes/counts)
    "int_widths": [1, 1, 1, 2, 2, 3, 4, 5, 6, 7, 8, 9, 16],
    "flat": False,                 # C18: only int/bits/data, no modifiers
    "p_backward_at": 0.25,
    "p_describe": 0.0,             # length = Int(n).describe(AutoLength(next)); next = Data(length)
    "p_elem_index": 0.12,          # repeated Data whose element size is len(pkt.<the list itself>) + c
    "p_implicit_ref": 0.25,        # a sub-packet declared by a bare packet class / instance in the class body
    "p_share_table": 0.3,          # a second selector of a declaration re-uses the options table object of an earlier one
    "p_proto_kept": 0.3,           # the prototype instance of a Ref is kept in a variable and modified after the class statement
    "p_move_first": 0.0,           # a position written BEFORE .when()/.repeated() (C14 only; see render.field_src)
    "p_backrun": 0.0,              # idiom: fields placed high first, then a run of plain fixed fields placed back at the start
}


def wchoice(rng, weights):
    items = [(k, w) for k, w in weights.items() if w > 0]
    tot = sum(w for _, w in items)
    r = rng.random() * tot
    for k, w in items:
        r -= w
        if r <= 0:
            return k
    return items[-1][0]


class Gen:
    def __init__(self, rng, profile=None):
        self.rng = rng
        self.p = dict(DEFAULT_PROFILE)
        if profile:
            self.p.update(profile)
        self.decls = {}
        self.order = []
        self.counter = 0
        self._decl_fields = []     # stack of the field lists of the declarations being generated

    # ------------------------------------------------------------------ expressions
    def dyn_int(self, ints, role, allow_const=True):
        """A Dyn producing a small integer from earlier int fields (or a constant)."""
        rng = self.rng
        if not ints or (allow_const and rng.random() < 0.25):
            if role == "count":
                return {"form": "const", "e": ["c", rng.choice([0, 1, 2, 2, 3])]}
            if role == "size":
                return {"form": "const", "e": ["c", rng.choice([0, 1, 2, 3, 4, 7])]}
            return {"form": "const", "e": ["c", rng.choice([1, 2, 3, 4, 6])]}
        f = rng.choice(ints)
        self.hint(f, "small")
        r = rng.random()
        if r < 0.35:
            return {"form": "field", "e": ["f", f["name"]]}
        # an expression
        shapes = ["mul", "add", "and", "rsub", "sub", "shift", "two", "ite", "floordiv", "mod", "cmp"]
        if not self.p["allow_negative"]:
            shapes = [s for s in shapes if s not in ("rsub", "sub")]
        sh = rng.choice(shapes)
        F = ["f", f["name"]]
        if sh == "mul":
            e = ["b", "mul", F, ["c", rng.choice([1, 2, 3])]] if rng.random() < 0.5 else ["b", "mul", ["c", 2], F]
        elif sh == "add":
            e = ["b", "add", F, ["c", rng.choice([1, 2])]] if rng.random() < 0.5 else ["b", "add", ["c", 1], F]
        elif sh == "and":
            e = ["b", "and", F, ["c", rng.choice([1, 3, 7])]]
        elif sh == "rsub":
            e = ["b", "sub", ["c", rng.choice([2, 3, 4])], F]
        elif sh == "sub":
            e = ["b", "sub", F, ["c", 1]]
        elif sh == "shift":
            e = ["b", "lshift", ["c", 1], ["b", "and", F, ["c", 3]]] if rng.random() < 0.5 else ["b", "rshift", F, ["c", 1]]
        elif sh == "two" and len(ints) > 1:
            g = rng.choice(ints)
            self.hint(g, "small")
            e = ["b", rng.choice(["add", "mul", "or", "xor"]), F, ["f", g["name"]]]
        elif sh == "ite":
            e = ["ite", ["b", "gt", F, ["c", 1]], ["c", rng.choice([1, 2])], ["c", rng.choice([0, 3])], rng.choice(["list", "pos"])]
        elif sh == "floordiv":
            e = ["b", "floordiv", F, ["c", 2]]
        elif sh == "mod":
            e = ["b", "mod", F, ["c", rng.choice([2, 3, 4])]]
        elif sh == "cmp":
            e = ["b", rng.choice(["eq", "ne", "gt", "le"]), F, ["c", rng.choice([0, 1, 2])]]
        else:
            e = ["b", "add", F, ["c", 1]]
        return {"form": rng.choice(["expr", "lambda"]), "e": e}

    def dyn_cond(self, ints, datas):
        rng = self.rng
        if (not ints and not datas) or rng.random() < 0.05:
            return {"form": "lambda", "e": ["c", rng.choice([0, 1, 1])]}
        if datas and (not ints or rng.random() < 0.2):
            d = rng.choice(datas)
            r = rng.random()
            if r < 0.3 and d.get("mode") != "const":
                return {"form": "field", "e": ["u", "len", ["f", d["name"]]]}   # when(data_field) -> __len__
            if r < 0.6:
                return {"form": rng.choice(["expr", "lambda"]), "e": ["b", rng.choice(["eq", "ne"]), ["f", d["name"]], ["c", rng.choice([b"", b"a", b"\x00\x00"])]]}
            return {"form": rng.choice(["expr", "lambda"]), "e": ["b", "eq", ["sl", ["f", d["name"]], 0, 1], ["c", rng.choice([b"a", b"\x00", b"\x01"])]]}
        f = rng.choice(ints)
        self.hint(f, "small")
        F = ["f", f["name"]]
        r = rng.random()
        if r < 0.25:
            return {"form": "field", "e": ["u", "truth", F]}          # when(int_field) -> __nonzero__
        if r < 0.85:
            op = rng.choice(["eq", "ne", "gt", "ge", "lt", "le"])
            c = ["c", rng.choice([0, 1, 2])]
            e = ["b", op, F, c]
            if rng.random() < 0.3:
                e = ["b", "and", e, ["b", "ne", F, ["c", 3]]]
            return {"form": rng.choice(["expr", "lambda"]), "e": e}
        return {"form": rng.choice(["expr", "lambda"]), "e": ["b", "and", F, ["c", rng.choice([1, 2])]]}

    def hint(self, f, kind, extra=None):
        h = f.setdefault("hint", {})
        h[kind] = extra if extra is not None else True
        # a field that steers a size / count / position keeps a small default (a default packet that shifts
        # by 4 GiB only exercises a resource limit)
        if f.get("t") == "int" and isinstance(f.get("default"), int) and not (0 <= f["default"] <= 7):
            f["default"] = 2

    # ------------------------------------------------------------------ fields
    def gen_int(self, name, small=False):
        rng = self.rng
        n = rng.choice([1, 1, 2]) if small else rng.choice(self.p["int_widths"])
        f = {"name": name, "t": "int", "n": n,
             "signed": (not small) and rng.random() < 0.3,
             "endian": rng.choice([None, None, None, "big", "little", "network", "local"])}
        if rng.random() < self.p["p_default"]:
            lo, hi = int_range(f["n"], f["signed"])
            f["default"] = rng.choice([1, 2, 7, hi, lo])
        return f

    def gen_data(self, name, ints, in_elem=False):
        rng = self.rng
        modes = {"const": 30, "dyn": 30 if ints else 0, "marker": 20, "regex": 10,
                 "eos": 3 if (self.p["allow_eos"] and not in_elem) else 0}
        mode = wchoice(rng, modes)
        f = {"name": name, "t": "data", "mode": mode}
        if mode == "const":
            f["size"] = rng.choice([0, 1, 2, 3, 4, 5, 8])
            if rng.random() < self.p["p_default"]:
                f["default"] = bytes(rng.choice(b"abcXYZ\x00\xff.") for _ in range(f["size"]))
                if not f["default"]:
                    del f["default"]
        elif mode == "dyn":
            f["size"] = self.dyn_int(ints, "size", allow_const=False)
            if f["size"]["form"] in ("lambda",) and self.p["allow_raw_callbacks"] and rng.random() < 0.08:
                f["size"] = {"form": "rawlambda", "e": ["rest"]}   # lambda pkt, raw, offset, **k: len(raw) - offset
        elif mode == "marker":
            f["marker"] = rng.choice(MARKERS)
            f["include"] = rng.random() < 0.4
            if self.p.get("allow_noconsume") and not f["include"] and rng.random() < 0.35:
                f["noconsume"] = True      # consume_delimiter=False: the delimiter stays in the input for the next field
        elif mode == "regex":
            rid = rng.choice(sorted(REGEXES))
            f["rx"] = rid
            f["include"] = rng.random() < 0.5
            if not f["include"] and not REGEXES[rid][1] and not self.p["allow_regex_nokeep_multi"]:
                f["include"] = True
            if not f["include"] and REGEXES[rid][1] and not self.p["allow_regex_nokeep_single"]:
                f["include"] = True
        if mode in ("dyn", "marker", "regex", "eos") and rng.random() < self.p["p_default"] * 0.6:
            f["default"] = rng.choice([b"hi", b"q", b"abc"])
        return f

    def gen_elem(self, name, ints, depth):
        """Prototype for repeated/optional: int, data, ref or sel."""
        rng = self.rng
        k = wchoice(rng, {"int": 40, "data": 25, "ref": 25 if depth < self.p["max_depth"] else 0,
                          "sel": 10 if ints else 0})
        if k == "int":
            return self.gen_int(name)
        if k == "data":
            return self.gen_data(name, ints, in_elem=True)
        if k == "ref":
            return self.gen_ref(name, depth)
        return self.gen_sel(name, ints, depth)

    def gen_ref(self, name, depth):
        rng = self.rng
        sub = self.gen_decl(depth + 1)
        f = {"name": name, "t": "ref", "decl": sub["name"]}
        if rng.random() < self.p["p_instance_proto"]:
            # instance prototype with keyword defaults for some plain int fields
            inst = {}
            for sf in sub["fields"]:
                if sf["t"] == "int" and not any(k in sf for k in ("rep", "opt", "describe")) and rng.random() < 0.5:
                    lo, hi = int_range(sf["n"], sf["signed"])
                    inst[sf["name"]] = rng.choice([1, 5, hi])
            f["inst"] = inst
            if rng.random() < self.p["p_proto_kept"]:
                # the user keeps the prototype object and changes it after the class statement: the class
                # holds the prototype as it was when declared
                mut = {}
                for sf in sub["fields"]:
                    if sf["t"] == "int" and not any(k in sf for k in ("rep", "opt", "describe")) and rng.random() < 0.6:
                        mut[sf["name"]] = rng.choice([0, 3, 6])
                if mut:
                    f["inst_mut"] = mut
        return f

    def gen_sel(self, name, ints, depth):
        rng = self.rng
        key = rng.choice(ints)
        earlier = [g for g in (self._decl_fields[-1] if self._decl_fields else []) if g["t"] == "sel"]
        if earlier and rng.random() < self.p["p_share_table"]:
            # one options table (the same dict, hence the same literal field objects) used by two selectors
            g = rng.choice(earlier)
            share = g.setdefault("share", "T%s" % g["name"])
            keys = [int(k) for k in g["options"]]
            self.hint(key, "keys", keys + [rng.choice([5, 6])])
            return {"name": name, "t": "sel", "key": key["name"], "options": copy.deepcopy(g["options"]),
                    "form": rng.choice(["chooses", "chooses", "lambda"]), "default_key": g["default_key"], "share": share}
        nopt = rng.randint(2, 3)
        keys = rng.sample([0, 1, 2, 3, 4, 9], nopt)
        options = {}
        all_packets = depth < self.p["max_depth"] and rng.random() < self.p.get("p_sel_all_packets", 0.3)    # several packet alternatives (A, B, A selections)
        for k in keys:
            r = 0.9 if all_packets else rng.random()
            if r < 0.4:
                o = {"t": "int", "n": rng.choice([1, 2, 3, 4]), "signed": rng.random() < 0.2,
                     "endian": rng.choice(["big", "little"])}
                if self.p.get("sel_int_without_byte_order") and rng.random() < 0.4:
                    # no byte order of its own: the library compiles run-time selected fields with an empty configuration
                    # (big-endian whatever the class says); only generated where no *value* is judged against the model (C01)
                    o["endian"] = None
                    o["sel_option"] = True
            elif r < 0.7 or depth >= self.p["max_depth"]:
                o = {"t": "data", "mode": "const", "size": rng.choice([1, 2, 4])} if rng.random() < 0.6 else \
                    {"t": "data", "mode": "marker", "marker": rng.choice(MARKERS), "include": rng.random() < 0.4}
            else:
                sub = self.gen_decl(depth + 1)
                o = {"t": "ref", "decl": sub["name"]}
            options[str(k)] = o
        self.hint(key, "keys", keys + [rng.choice([5, 6])])
        form = rng.choice(["chooses", "chooses", "lambda", "fresh"])     # fresh: the callable builds a new field / packet on every call
        # default: value consistent with one option
        dk = str(keys[0])
        f = {"name": name, "t": "sel", "key": key["name"], "options": options, "form": form, "default_key": dk}
        return f

    def gen_move(self, ints, pos_lb):
        rng = self.rng
        op = wchoice(rng, self.p["moves"])
        m = {"op": op}
        refs = dict(self.p["references"])
        if not self.p["allow_begins"]:
            refs["begins"] = 0
        if op == "shift":
            m["arg"] = {"form": "const", "e": ["c", rng.choice([0, 1, 2, 3, 5])]}
            cur = self._decl_fields[-1] if self._decl_fields else []
            if pos_lb >= 2 and not any("move" in g or "lost_move" in g for g in cur) and rng.random() < self.p["p_backward_at"] * 0.6:
                # (pos_lb is a lower bound of the cursor only while no earlier field of the declaration was positioned)
                # a second view of bytes already consumed (docs/11: Data(4).shift(-4 - 1)); never before the packet's start
                m["arg"] = {"form": "const", "e": ["c", -rng.randint(1, min(pos_lb, 4))]}
            if ints and rng.random() < 0.3:
                f = rng.choice(ints)
                self.hint(f, "small")
                m["arg"] = {"form": rng.choice(["field", "lambda"]), "e": ["f", f["name"]]}
            return m
        m["ref"] = wchoice(rng, refs)
        if op == "aligned":
            m["arg"] = {"form": "const", "e": ["c", rng.choice([1, 2, 3, 4, 4, 8])]}
            if ints and rng.random() < 0.15:
                f = rng.choice(ints)
                self.hint(f, "align")
                m["arg"] = {"form": rng.choice(["field", "lambda"]), "e": ["f", f["name"]]}
            if rng.random() < 0.3 and m["ref"] == "begins" and self.p["allow_begins"]:
                m["ref"] = None   # use the default reference of aligned()
            return m
        # at
        if m["ref"] == "current-offset":
            base = 0
        else:
            base = pos_lb
        back = rng.random() < self.p["p_backward_at"]
        if ints and rng.random() < 0.5:
            f = rng.choice(ints)
            lo = 0 if back else base
            self.hint(f, "pos", [lo, lo + 1, lo + 2, lo + 4])
            m["arg"] = {"form": rng.choice(["field", "lambda"]), "e": ["f", f["name"]]}
        else:
            lo = max(0, base - rng.choice([1, 2])) if back else base
            m["arg"] = {"form": "const", "e": ["c", lo + rng.choice([0, 0, 1, 2, 5])]}
        if rng.random() < 0.3 and m["ref"] == "innermost-pkt":
            m["ref"] = None       # default reference of at()
        return m

    def gen_rep(self, ints, elem, all_fields):
        rng = self.rng
        rep = {}
        if rng.random() < 0.7:
            rep["count"] = self.dyn_int(ints, "count")
        else:
            # until conditions
            choices = ["len_ge"]
            if elem["t"] == "int":
                choices += ["last_eq", "last_eq"]
            if elem["t"] == "ref":
                sub = self.decls[elem["decl"]]
                cand = [sf for sf in sub["fields"] if sf["t"] == "int" and not any(k in sf for k in ("rep", "opt"))]
                if cand:
                    choices += ["last_field_eq", "last_field_eq"]
            always_consumes = (elem["t"] == "int" or (elem["t"] == "data" and (
                (elem["mode"] == "const" and elem["size"] > 0) or elem["mode"] == "marker")))
            if self.p["allow_raw_callbacks"] and always_consumes:
                # (an element that may consume nothing would loop forever under these conditions)
                choices += ["at_end", "peek_eq"]
            u = rng.choice(choices)
            if u == "len_ge":
                rep["until"] = {"k": "len_ge", "n": rng.choice([1, 2, 3])}
            elif u == "last_eq":
                rep["until"] = {"k": "last_eq", "v": 0}
                self.hint(elem, "term", 0)
            elif u == "last_field_eq":
                sf = rng.choice(cand)
                rep["until"] = {"k": "last_field_eq", "field": sf["name"], "v": 0}
                self.hint(sf, "term", 0)
            elif u == "at_end":
                rep["until"] = {"k": "at_end"}
            else:
                rep["until"] = {"k": "peek_eq", "v": 0}
        if rng.random() < 0.3 and (ints or all_fields):
            datas = [f for f in all_fields if f["t"] == "data" and plain(f)]
            rep["when"] = self.dyn_cond(ints, datas)
        if rng.random() < 0.2:
            rep["aligned"] = rng.choice([2, 3, 4])
        return rep

    # ------------------------------------------------------------------ declarations
    def gen_decl(self, depth=0):
        rng = self.rng
        name = "P%d" % self.counter
        self.counter += 1
        opts = {}
        if rng.random() < self.p["p_class_endianness"]:
            opts["endianness"] = rng.choice(["little", "big", "network", "local"])
        if rng.random() < self.p["p_class_sbl"]:
            opts["search_buffer_length"] = rng.choice([0, 2, 3, 5, 8])
        class_align = (not self.p["flat"]) and self.p["allow_begins"] and rng.random() < self.p["p_class_align"]
        if class_align:
            opts["align"] = rng.choice([2, 4])
        decl = {"name": name, "opts": opts, "fields": []}
        self.decls[name] = decl   # reserve (children are created while generating fields)
        self._decl_fields.append(decl["fields"])
        nfields = rng.randint(min(self.p.get("min_fields", 1), self.p["max_fields"]), self.p["max_fields"])
        fields = decl["fields"]
        pos_lb = 0   # static lower bound of the cursor relative to the packet start
        if depth == 0 and not class_align and rng.random() < self.p["p_backrun"]:
            # index_at = Int(1).at(H); index = <fixed>.at(index_at); then a run of 2-4 plain fixed fields starting at(0)
            H = rng.choice([6, 8, 9, 12])
            fields.append({"name": "f0", "t": "int", "n": 1, "signed": False, "endian": None,
                           "move": {"op": "at", "arg": {"form": "const", "e": ["c", H]}, "ref": rng.choice(["innermost-pkt", None])},
                           "hint": {"pos": [1, 2, 3, 4, 5, H + 1]}})
            second = {"name": "f1", "t": "int", "n": rng.choice([1, 2]), "signed": False, "endian": None} if rng.random() < 0.7 else \
                     {"name": "f1", "t": "data", "mode": "const", "size": rng.choice([1, 2, 3])}
            second["move"] = {"op": "at", "arg": {"form": rng.choice(["field", "lambda"]), "e": ["f", "f0"]}, "ref": "innermost-pkt"}
            fields.append(second)
            for k in range(rng.randint(2, 4)):
                f = {"name": "f%d" % len(fields), "t": "int", "n": rng.choice([1, 2, 2, 4]), "signed": False,
                     "endian": rng.choice([None, None, "big"])} if rng.random() < 0.75 else \
                    {"name": "f%d" % len(fields), "t": "data", "mode": "const", "size": rng.choice([1, 2])}
                if k == 0:
                    f["move"] = {"op": "at", "arg": {"form": "const", "e": ["c", 0]}, "ref": "innermost-pkt"}
                fields.append(f)
            nfields = max(nfields, len(fields))
        i = 0
        while len(fields) < nfields:
            fname = "f%d" % len(fields)
            ints = [f for f in fields if f["t"] in ("int", "bits") and plain(f) and not f.get("signed") and "describe" not in f]
            if not self.p["flat"] and rng.random() < self.p["p_describe"]:
                ln = {"name": fname, "t": "int", "n": rng.choice([1, 1, 2]), "signed": False,
                      "endian": rng.choice([None, None, "big", "little"]),
                      "describe": {"k": "autolength", "of": "f%d" % (len(fields) + 1)}, "hint": {"small": True}}
                dt = {"name": "f%d" % (len(fields) + 1), "t": "data", "mode": "dyn", "size": {"form": "field", "e": ["f", fname]}}
                if rng.random() < 0.3:
                    dt["default"] = rng.choice([b"hi", b"q"])
                fields.append(ln)
                fields.append(dt)
                pos_lb += ln["n"]
                continue
            datas = [f for f in fields if f["t"] == "data" and plain(f)]
            kinds = dict(self.p["kinds"])
            if depth >= self.p["max_depth"]:
                kinds["ref"] = 0
            if not ints:
                kinds["sel"] = 0
            if self.p["flat"]:
                kinds = {"int": 40, "data": 40, "bits": 20}
            k = wchoice(rng, kinds)
            if k == "bits":
                total = 8 * rng.choice([1, 1, 2, 2, 3, 4, 5, 6])
                if class_align:
                    widths = [total]      # a Move is inserted before each member: runs of one member only
                else:
                    widths = composition(rng, total, rng.randint(1, min(5, total)))
                first = True
                for w in widths:
                    bf = {"name": "f%d" % len(fields), "t": "bits", "w": w}
                    if rng.random() < self.p["p_default"]:
                        bf["default"] = rng.choice([1, (1 << w) - 1])
                    if first and not self.p["flat"] and rng.random() < self.p["p_move"]:
                        bf["move"] = self.gen_move(ints, pos_lb)
                    first = False
                    fields.append(bf)
                pos_lb += total // 8
                continue
            if k == "em":
                f = {"name": fname, "t": "em"}
                if rng.random() < 0.8:
                    f["move"] = self.gen_move(ints, pos_lb)
                    if rng.random() < 0.6:
                        f["move"] = {"op": "aligned", "arg": {"form": "const", "e": ["c", rng.choice([2, 4, 8])]},
                                     "ref": rng.choice(["innermost-pkt", "current-offset"] + (["begins", None] if self.p["allow_begins"] else []))}
                fields.append(f)
                continue
            wrap = None
            if not self.p["flat"]:
                r = rng.random()
                if r < self.p["p_rep"]:
                    wrap = "rep"
                elif r < self.p["p_rep"] + self.p["p_opt"] and (ints or datas):
                    wrap = "opt"
            if wrap:
                f = self.gen_elem(fname, ints, depth)
            elif k == "int":
                f = self.gen_int(fname, small=(rng.random() < 0.45))
            elif k == "data":
                f = self.gen_data(fname, ints)
            elif k == "ref":
                f = self.gen_ref(fname, depth)
            else:
                f = self.gen_sel(fname, ints, depth)
            if wrap == "rep":
                f["rep"] = self.gen_rep(ints, f, fields)
                if f["t"] == "data" and "count" in f["rep"] and "default" not in f and rng.random() < self.p["p_elem_index"]:
                    # the size of the i-th element depends on how many elements were parsed so far (docs/08: the list is "created
                    # at the begin of the parsing and updated later", so an element callable may use len(pkt.<list>) as running index)
                    f["mode"] = "dyn"
                    f.pop("marker", None), f.pop("include", None), f.pop("rx", None), f.pop("noconsume", None)
                    f["size"] = {"form": "lambda", "e": ["b", "add", ["u", "len", ["f", fname]], ["c", rng.choice([0, 1, 1])]]}
                if rng.random() < self.p["p_default"] * 0.5 and f["t"] == "int":
                    f["rep"]["default"] = [1, 2][: rng.randint(1, 2)]
            elif wrap == "opt":
                f["opt"] = {"when": self.dyn_cond(ints, datas)}
                if rng.random() < self.p["p_default"] * 0.8:
                    # a declared default for the optional field (held by default-constructed packets)
                    if f["t"] == "int":
                        f["opt"]["default"] = rng.choice([0, 1, 5] if f["n"] == 1 else [0, 1, 5, 258])
                    elif f["t"] == "data" and f["mode"] == "const":
                        f["opt"]["default"] = bytes(rng.choice(b"opq\x00") for _ in range(f["size"]))
                    elif f["t"] == "data" and f["mode"] in ("dyn", "marker"):
                        f["opt"]["default"] = rng.choice([b"", b"k"])
            if wrap and rng.random() < self.p["p_move_first"]:
                # Int(1).aligned(4, 'innermost-pkt').when(c): the position is written on the wrapped field, not on the wrapper.
                # The library ignores such a position; the reference model does not model it at all and only C14 (whose oracle
                # needs no model) generates it.
                f["lost_move"] = self.gen_move(ints, pos_lb)
            elif not self.p["flat"] and rng.random() < self.p["p_move"]:
                f["move"] = self.gen_move(ints, pos_lb)
            fields.append(f)
            if f["t"] == "int" and plain(f):
                pos_lb += f["n"]
            elif f["t"] == "data" and plain(f) and f["mode"] == "const":
                pos_lb += f["size"]
        for f in fields:
            # begin = Point(x=1) / end = Point written directly in the class body (no Ref(...)): the builder wraps them
            if f["t"] == "ref" and plain(f) and "move" not in f and "inst_mut" not in f and not decl["opts"].get("align") \
                    and rng.random() < self.p["p_implicit_ref"]:
                f["implicit"] = True
        self._decl_fields.pop()
        self.order.append(name)
        return decl

    def family(self):
        root = self.gen_decl(0)
        return {"root": root["name"], "decls": self.decls, "order": list(self.order)}


def plain(f):
    return not any(k in f for k in ("rep", "opt"))


def int_range(n, signed):
    if signed:
        return -(1 << (8 * n - 1)), (1 << (8 * n - 1)) - 1
    return 0, (1 << (8 * n)) - 1


def composition(rng, total, parts):
    """Random composition of `total` into `parts` positive integers."""
    if parts <= 1:
        return [total]
    cuts = sorted(rng.sample(range(1, total), parts - 1))
    out, prev = [], 0
    for c in cuts:
        out.append(c - prev)
        prev = c
    out.append(total - prev)
    return out


def gen_family(rng, profile=None):
    return Gen(rng, profile).family()


# ---------------------------------------------------------------------- skeletons / coverage
def expr_shape(e):
    if not isinstance(e, list):
        return "?"
    if e[0] in ("c", "f"):
        return e[0]
    if e[0] == "u":
        return "u:%s(%s)" % (e[1], expr_shape(e[2]))
    if e[0] == "b":
        return "b:%s(%s,%s)" % (e[1], expr_shape(e[2]), expr_shape(e[3]))
    return e[0]


def dyn_shape(d):
    if d is None:
        return None
    return "%s:%s" % (d["form"], expr_shape(d["e"]))


def field_skeleton(fam, f, depth=0):
    sk = [f["t"]]
    if f["t"] == "int":
        sk += [f["n"], bool(f.get("signed")), f.get("endian")]
    elif f["t"] == "data":
        sk += [f["mode"], f.get("include"), f.get("rx"), dyn_shape(f["size"]) if f["mode"] == "dyn" else None]
    elif f["t"] == "bits":
        sk += [f["w"]]
    elif f["t"] == "ref":
        sk += [decl_skeleton(fam, fam["decls"][f["decl"]], depth + 1), "inst" in f]
    elif f["t"] == "sel":
        sk += [f["form"], sorted((k, o["t"]) for k, o in f["options"].items())]
    if "move" in f:
        m = f["move"]
        sk.append(("move", m["op"], m.get("ref"), m["arg"]["form"]))
    if "rep" in f:
        r = f["rep"]
        sk.append(("rep", dyn_shape(r.get("count")), (r.get("until") or {}).get("k"), dyn_shape(r.get("when")), r.get("aligned")))
    if "opt" in f:
        sk.append(("opt", dyn_shape(f["opt"]["when"])))
    if "default" in f:
        sk.append("default")
    if "describe" in f:
        sk.append("describe")
    return sk


def decl_skeleton(fam, decl, depth=0):
    return [sorted(decl["opts"].items()), [field_skeleton(fam, f, depth) for f in decl["fields"]]]


def family_skeleton(fam):
    return decl_skeleton(fam, fam["decls"][fam["root"]])


def coverage_tuples(fam):
    """(field kind x sizing/control mode x modifier x class option) tuples present in a family."""
    out = set()
    for d in fam["decls"].values():
        o = ",".join(sorted(d["opts"])) or "-"
        for f in d["fields"]:
            mode = f.get("mode") or (str(f.get("n")) if f["t"] == "int" else f.get("form") or "")
            mods = []
            if "move" in f:
                mods.append("%s/%s/%s" % (f["move"]["op"], f["move"].get("ref"), f["move"]["arg"]["form"]))
            if "rep" in f:
                mods.append("rep:%s" % ("count/" + f["rep"]["count"]["form"] if "count" in f["rep"] else "until/" + f["rep"]["until"]["k"]))
                if "when" in f["rep"]:
                    mods.append("rep-when")
                if "aligned" in f["rep"]:
                    mods.append("rep-aligned")
            if "opt" in f:
                mods.append("opt:" + f["opt"]["when"]["form"])
            out.add("%s|%s|%s|%s" % (f["t"], mode, "+".join(mods) or "-", o))
    return out


def clone(fam):
    return copy.deepcopy(fam)
