"""Shared workbench for the declaration-driven checks: generate a family, define its variants,
instrument the generic variant, run the real library and the model side by side."""
import re
import contextlib
import signal
import sys
import threading

from . import common, model, monitors, render, spec


class CaseTimeout(BaseException):
    """Raised by the per-case watchdog (SIGALRM). A watchdog expiry is never a verdict."""


class TooManyTimeouts(BaseException):
    """The per-case watchdog expired so often that going on would only burn the time budget: the run stops
    and is reported inconclusive (unless violations were recorded before)."""


MAX_CASE_TIMEOUTS = 12
_timeouts = [0]


TIMEOUT_CASES = []      # (what, class name, input) of the first few expiries: reported in the evidence


_slow_classes = {}      # (module, qualified name) -> number of expiries: a class that expired twice is not run again (a declaration on which the
                        # library does not terminate - e.g. an until-loop whose elements jump back to an absolute position -
                        # would otherwise eat the whole budget of the run with one family)


def _ckey(cls):
    return (getattr(cls, "__module__", None), getattr(cls, "__qualname__", None))


def gives_up_on(cls):
    return _slow_classes.get(_ckey(cls), 0) >= 2


def note_timeout(what="", cls=None, raw=None):
    if cls is not None:
        _slow_classes[_ckey(cls)] = _slow_classes.get(_ckey(cls), 0) + 1
        if _slow_classes[_ckey(cls)] > 1:
            return              # counted once per class
    _timeouts[0] += 1
    if len(TIMEOUT_CASES) < 4:
        import inspect
        try:
            src = inspect.getsource(sys.modules[cls.__module__]) if cls is not None else None
        except Exception:
            src = None
        TIMEOUT_CASES.append({"call": what, "class": getattr(cls, "__name__", None), "input": raw.hex() if isinstance(raw, (bytes, bytearray)) else None,
                              "source": src[-3000:] if src else None})
    if _timeouts[0] > MAX_CASE_TIMEOUTS:
        raise TooManyTimeouts("%d library calls did not return within %ss" % (_timeouts[0], CASE_TIME_LIMIT))


@contextlib.contextmanager
def time_limit(seconds):
    """Wall-clock watchdog around one library call (main thread only; no-op elsewhere)."""
    if threading.current_thread() is not threading.main_thread() or seconds is None:
        yield
        return

    def handler(signum, frame):
        raise CaseTimeout()
    old = signal.signal(signal.SIGALRM, handler)
    signal.setitimer(signal.ITIMER_REAL, seconds)
    try:
        yield
    finally:
        signal.setitimer(signal.ITIMER_REAL, 0)
        signal.signal(signal.SIGALRM, old)


CASE_TIME_LIMIT = 20.0

_END = threading.local()


def track_end(cls):
    """Wrap cls.unpack_impl so the end offset returned by the outermost call can be read after
    a public Packet.unpack()."""
    if getattr(cls, "_bvf_end_tracked", False):
        return
    inner = cls.unpack_impl

    def unpack_impl(self, raw, offset, **k):
        end = inner(self, raw, offset, **k)
        _END.value = end
        return end
    cls.unpack_impl = unpack_impl
    cls._bvf_end_tracked = True


class LibResult:
    __slots__ = ("status", "pkt", "end", "err", "etype")

    def __init__(self, status, pkt=None, end=None, err=None):
        self.status = status      # ok | packeterror | exception | timeout
        self.pkt = pkt
        self.end = end
        self.err = err
        self.etype = type(err).__name__ if err is not None else None


def lib_unpack(cls, raw, offset=0):
    import bisturi.packet as bp
    _END.value = None
    if gives_up_on(cls):
        return LibResult("timeout")
    try:
        with time_limit(CASE_TIME_LIMIT):
            if offset:
                pkt = cls.unpack(raw, offset)
            else:
                pkt = cls.unpack(raw)
    except CaseTimeout:
        note_timeout("unpack", cls, bytes(raw) if isinstance(raw, (bytes, bytearray)) else None)
        return LibResult("timeout")
    except bp.PacketError as e:
        return LibResult("packeterror", err=e)
    except RecursionError:
        raise
    except Exception as e:
        return LibResult("exception", err=e)
    return LibResult("ok", pkt=pkt, end=getattr(_END, "value", None))


def lib_pack(pkt):
    import bisturi.packet as bp
    if gives_up_on(type(pkt)):
        return LibResult("timeout")
    try:
        with time_limit(CASE_TIME_LIMIT):
            out = pkt.pack()
    except CaseTimeout:
        note_timeout("pack", type(pkt), None)
        return LibResult("timeout")
    except bp.PacketError as e:
        return LibResult("packeterror", err=e)
    except RecursionError:
        raise
    except Exception as e:
        return LibResult("exception", err=e)
    return LibResult("ok", pkt=out)


class Bench:
    """One generated family with its loaded variants."""

    def __init__(self, fam, variants, directory, instrument=("g",), local=False):
        self.fam = fam
        self.local = local
        self.loaded = render.load_family(fam, variants, directory, local=local)
        self.rec = monitors.Recorder()
        for v in variants:
            for name, cls in self.loaded.classes(v).items():
                track_end(cls)
        for v in instrument:
            if v in variants:
                for name, cls in self.loaded.classes(v).items():
                    monitors.instrument_class(cls, self.rec)

    def root(self, v):
        return self.loaded.root(v)

    def close(self):
        render.unload(self.loaded)

    def traced_unpack(self, variant, raw, offset=0):
        """Unpack with the Recorder and TracedBytes on. Returns (LibResult, roots, slices, fail_node)."""
        tb = monitors.TracedBytes(raw)
        self.rec.start()
        try:
            res = lib_unpack(self.root(variant), tb, offset)
        finally:
            roots = self.rec.stop()
        return res, roots, tb.log, self.rec.fail_node()

    def traced_pack(self, pkt):
        self.rec.start()
        try:
            res = lib_pack(pkt)
        finally:
            roots = self.rec.stop()
        return res, roots, self.rec.fail_node()


_FIELD_NAME = re.compile(r"^f\d+$")


def underscore_names(x):
    """The same family with every field called _fN instead of fN (a leading underscore is a legal attribute name for a user field;
    the library's own pseudo fields start with one too).  Field names occur in the spec only as whole strings."""
    if isinstance(x, dict):
        return {underscore_names(k): underscore_names(v) for k, v in x.items()}
    if isinstance(x, list):
        return [underscore_names(v) for v in x]
    if isinstance(x, tuple):
        return tuple(underscore_names(v) for v in x)
    if isinstance(x, str) and _FIELD_NAME.match(x):
        return "_" + x
    return x


def try_family(rng, profile, variants, directory, instrument=("g",), max_tries=5):
    """Generate + define a family. A family that cannot be defined is returned as (None, fam, exc)."""
    fam = spec.gen_family(rng, profile)
    want = profile.get("accept") if profile else None      # optional predicate on the generated family (rejection sampling)
    tries = 0
    while want is not None and not want(fam) and tries < 200:
        fam = spec.gen_family(rng, profile)
        tries += 1
    local = bool(profile and profile.get("p_local_classes", 0) > rng.random())
    if profile and profile.get("p_underscore_names", 0) > 0 and profile["p_underscore_names"] > rng.random():
        fam = underscore_names(fam)
    try:
        b = Bench(fam, variants, directory, instrument, local=local)
    except RecursionError:
        raise
    except Exception as e:
        return None, fam, e
    return b, fam, None


def model_parse(fam, raw, offset=0):
    """('ok', ParseOk) | ('fail', ParseFail) | ('undefined', reason)"""
    try:
        return "ok", model.parse(fam, model.ConcreteBuf(raw), offset)
    except model.ParseFail as e:
        return "fail", e
    except model.Undefined as e:
        return "undefined", e
    except RecursionError as e:
        return "undefined", e


def model_encode(fam, pv):
    try:
        return "ok", model.encode(fam, pv)
    except model.EncodeFail as e:
        return "fail", e
    except model.Undefined as e:
        return "undefined", e


def uses_feature(fam, pred):
    for d in fam["decls"].values():
        for f in d["fields"]:
            if pred(d, f):
                return True
    return False


def has_begins_reference(fam):
    """Declarations whose positions are relative to the start of the data (offset rule of C01/C14)."""
    def pred(d, f):
        if "align" in d["opts"]:
            return True
        m = f.get("move")
        if m is not None and model.move_ref(m) == "begins":
            return True
        if "rep" in f and ("aligned" in f["rep"]):
            return True
        return False
    return uses_feature(fam, pred)


def begins_alignments(fam):
    """All alignment moduli taken relative to 'begins' (offsets multiple of all of them keep
    relative and absolute alignment in agreement). Returns None when an absolute at() or a
    non-constant begins-alignment is present (then only offset 0 is well defined)."""
    mods = set()
    for d in fam["decls"].values():
        if "align" in d["opts"]:
            mods.add(d["opts"]["align"])
        for f in d["fields"]:
            m = f.get("move")
            if m is not None and model.move_ref(m) == "begins":
                if m["op"] == "aligned" and m["arg"]["form"] == "const":
                    mods.add(m["arg"]["e"][1])
                else:
                    return None
            if "rep" in f and "aligned" in f["rep"]:
                mods.add(f["rep"]["aligned"])
    return mods


def uses_raw_callbacks(fam):
    def pred(d, f):
        if f["t"] == "data" and f.get("mode") == "dyn" and f["size"]["form"] == "rawlambda":
            return True
        if "rep" in f and "until" in f["rep"] and f["rep"]["until"]["k"] in ("at_end", "peek_eq"):
            return True
        return False
    return uses_feature(fam, pred)
